"""Static per-property metadata used by vcheck for evidence files (what is real, what is simulated, how
cases are generated and what makes one non-trivial).  Counts are never stored here: they are measured per run."""

WORLD_A_COMPONENTS = {
    "real": ["lib/Core/BuildEngine.cpp", "lib/Core/SQLiteBuildDB.cpp", "include/llbuild/Core/DependencyKeyIDs.h",
             "lib/Basic/LaneBasedExecutionQueue.cpp", "lib/Basic/SerialQueue.cpp", "SQLite 3.40.1 (static)", "libstdc++ (static)"],
    "simulated": ["thread scheduling (detsched over wrapped pthread_*)", "clock (clock_gettime/nanosleep/cond timed waits)",
                  "disk under the database (sqlite3_vfs over simfs, incl. file locks)"],
    "stub": ["the engine's client: rules/tasks/delegate are the generated program interpreter"],
    "not_run": ["lib/BuildSystem", "lib/Ninja", "lib/Commands", "Subprocess.cpp"],
}

ASSUME_A = [
    "preemption happens at synchronisation operations, clock reads and harness yield points only (DESIGN 2.2)",
    "task programs are deterministic functions of their regular inputs and discovered reads (generator constraint)",
    "SQLite itself is trusted; the VFS gives process-kill semantics (written data survives), not power-loss semantics",
    "reference evaluator and shadow are independent re-implementations written from the API documentation",
]


def a(rule, level="exploration", quick=60, thorough=1200, tsan=None, assumptions=None):
    d = {"level": level, "rule": rule, "components": WORLD_A_COMPONENTS, "assumptions": assumptions or ASSUME_A,
         "budget": {"quick": quick, "thorough": thorough}}
    if tsan:
        d["tsan"] = tsan
    return d


WORLD_C_COMPONENTS = {
    "real": ["lib/Basic/LaneBasedExecutionQueue.cpp", "lib/Basic/SerialQueue.cpp", "lib/Basic/Subprocess.cpp",
             "include/llbuild/Basic/POSIXEnvironment.h", "lib/Basic/PlatformUtility.cpp", "libstdc++ (static)"],
    "simulated": ["thread scheduling (detsched)", "clock (kill timeout, sleeps)", "child processes, pipes, poll/read/wait4/kill, "
                  "posix_spawn and its file actions (simproc)", "RLIMIT_NOFILE"],
    "stub": ["children are scripted actors (write/sleep/close/release/ignore SIGINT/exit/raise)", "queue client = generated job mix"],
    "not_run": ["lib/Core", "lib/BuildSystem", "real fork/exec"],
}

PROPS = {
    "C01": a("seeded generation of rule programs (3-14 keys; static/dynamic/discovered/order-only/single-use edges) x histories of "
             "{set leaf, build key, restart, change signature, reprogram rule, invalidate}; every build result and every value handed "
             "to a task is compared with a from-scratch reference evaluator. Non-trivial: at least one incremental build in which some "
             "rule was skipped and some rule executed. Distinct: (program/history shape hash, interleaving hash) pairs."),
    "C02": a("same generator as C01; every execution is checked against the observer's shadow of validated/changed build numbers; "
             "the reported RunReason must be true. Non-trivial: a run with at least one InputRebuilt execution AND one rule scanned "
             "clean although one of its inputs was re-validated in the same build (the off-by-one case)."),
    "C03": a("each history executed three times (as generated / restart before every build / no restart) in the canonical completion "
             "mode and compared per build; database read back through a fresh connection after every build and compared with the "
             "shadow; hostile key/value byte alphabets (NUL, leading NUL, non-UTF-8, numeric-looking, 4 KiB; empty values); client-version "
             "changes and rewritten schema versions (recreated empty, or rejected with the file untouched when recreate is off); a "
             "second engine attaching or building while a build holds the database (must fail after the simulated busy timeout, file "
             "and journal unchanged). Non-trivial: >=2 restarts and a rule "
             "skipped thanks to a persisted result."),
    "C04": a("for each sampled history one build is chosen and EVERY VFS call of that build is a kill point (exhaustive over kill "
             "points of that build, not over histories); surviving image checked, history continued. Non-trivial: kill landed after "
             "the first database write of the build.", level="fault_enumeration"),
    "C05": a("C01 generator with asynchronous completion plus one cancellation trigger per build (engine callback n on the engine thread, "
             "engine callback n from a foreign thread, free-running thread, inside a computing job, double cancel). Non-trivial: "
             "cancel landed while a task was waiting for inputs or computing."),
    "C06": a("the final build of each history executed from identical state under several schedules/queue kinds and compared with "
             "the canonical synchronous execution; protocol monitor on every callback; hang detection by scheduler quiescence; "
             "same workloads under ThreadSanitizer with the scheduler uninstrumented; in a share of database-backed plans one BuildDB call "
             "of the last build (setRuleResult / lookupRuleResult / buildStarted / setCurrentIteration) fails through a forwarding wrapper, or one write / sync "
             "of the simulated disk under SQLite returns EIO / disk-full, "
             "after which only 'the build comes back and leaves no task or thread behind' is judged. Non-trivial: >=2 tasks computing concurrently.",
             tsan={"quick": 25, "thorough": 300}),
    "C07": a("programs with back edges (static, dynamic, order-only, single-use) and reprogramming that leaves stale recorded edges; every "
             "cycle report validated edge by edge; reference says whether a clean evaluation is cyclic. Non-trivial: a cycle was "
             "reported or required, or an incremental build skipped work."),
    "C16": {"level": "exploration",
            "rule": "seeded job mixes (1-30 jobs: durations, priorities, jobs adding jobs, 0-8 process launches) x queue kind/lanes/"
                    "scheduler algorithm/open-file limit x scripted children (0-200 KiB output in random chunking, exit 0-255, "
                    "self-signal, SIGINT-ignoring, early close, lane release, malformed control messages) x faults (spawn ENOENT/EAGAIN/"
                    "ENOMEM, pipe EMFILE, EINTR on poll/wait4, short reads) x cancellation at a seeded point, under seeded schedules. "
                    "Non-trivial: at least one child was spawned and more than one job ran.",
            "components": WORLD_C_COMPONENTS,
            "assumptions": ["preemption at synchronisation operations, simulated syscalls and harness yield points only",
                            "a simulated child dies at its next operation boundary after a fatal signal",
                            "jobs are not added concurrently with the queue's destruction (client misuse)"],
            "budget": {"quick": 60, "thorough": 1200}, "tsan": {"quick": 20, "thorough": 300}},
}

WORLD_B_COMPONENTS = {
    "real": ["lib/BuildSystem/BuildSystemFrontend.cpp", "lib/BuildSystem/BuildSystem.cpp", "lib/BuildSystem/BuildFile.cpp (YAML loader)",
             "lib/BuildSystem/ExternalCommand.cpp", "lib/BuildSystem/ShellCommand.cpp", "lib/BuildSystem/BuildNode.cpp / BuildKey / BuildValue",
             "lib/Core/BuildEngine.cpp", "lib/Core/SQLiteBuildDB.cpp", "lib/Core/MakefileDepsParser.cpp", "lib/Core/DependencyInfoParser.cpp",
             "lib/Basic/LaneBasedExecutionQueue.cpp", "lib/Basic/Subprocess.cpp", "lib/Basic/FileSystem.cpp + FileInfo.cpp",
             "llvm Support Path/MemoryBuffer/YAMLParser", "SQLite (static)"],
    "simulated": ["file system (simfs behind stat/lstat/open/read/opendir/mkdir/unlink/...)", "database disk (sqlite3_vfs)",
                  "processes, pipes, poll/wait4/kill (simproc)", "thread scheduling and clock (detsched)"],
    "stub": ["the compiler: /sim/bin/cc is a deterministic simulated tool (reads inputs and #include lines, writes hashed outputs and "
             "dependency files with the documented escaping)"],
    "not_run": ["clang/swift/archive/shared-library tools (mkdir and symlink tools run in C08/C09/C10)", "lib/Ninja",
                "lib/Commands except BuildSystemCommand.cpp's build command, which 15% of the C08/C09/C10 runs go through"],
}
ASSUME_B = [
    "a build op runs in a new frontend (new client process) or, for about 30% of build ops, in the previous build's frontend (reused BuildSystem)",
    "commands are deterministic functions of declared and discovered inputs (simulated tool)",
    "every edit is observable: the simulated clock is strictly monotonic, so each write changes mtime",
    "discovered dependencies name source files only; directory-tree inputs have complete producer edges",
    "preemption at synchronisation operations, simulated syscalls and harness yield points only",
]


def b(rule, quick=60, thorough=1200):
    return {"level": "exploration", "rule": rule, "components": WORLD_B_COMPONENTS, "assumptions": ASSUME_B,
            "budget": {"quick": quick, "thorough": thorough}}


PROPS.update({
    "C08": b("seeded build descriptions (2-12 shell/phony commands, multiple outputs, shared sub-graphs, dependency files, commands with a "
             "working directory, command-timestamp nodes) written as YAML "
             "and loaded by the real BuildFile x histories of {edit/delete source, delete/overwrite output, edit description, inject failure, "
             "build target} in a new frontend per build, serial and parallel lanes; after each successful build every output reachable "
             "from the target is compared with an independent clean-build evaluation. Non-trivial: a description edit and a source edit "
             "occurred and some command was legitimately skipped."),
    "C09": b("same generator; per build the set of executed commands (log of the simulated tool) is compared with a file-state model: "
             "a command must run iff it never succeeded, its definition hash changed (each single-attribute edit kind), an input/"
             "discovered/output state differs from what it recorded, or a producer of an input ran. Non-trivial: a build that both ran "
             "and skipped commands, or a null build."),
    "C10": b("same generator with command failures - injected (exit status, fatal signal, SIGKILL from outside the build, posix_spawn failing, "
             "failure after writing one output) and the tool's "
             "own (missing source input, a directory where an output must be written, a tool that stops at a missing undeclared header, a "
             "file where a mkdir command must create its directory) - in builds that run to completion, builds cancelled on the first "
             "failure by the delegate, and builds through the command-line driver; no transitive consumer may run, the build must report failure, the command must be retried, and after "
             "repair the build converges (C08 oracle). Non-trivial: at least one build with a failing command."),
    "C12": b("a source tree (depth <= 4, up to ~12 entries) consumed through a directory-tree or directory-structure node, with and without "
             "exclusion patterns; tree edits at any depth (add, remove, rename, retype file<->directory, content edit, mtime-only touch, "
             "mkdir, remove sub-tree) and node type/filter edits between builds in new frontends; the consumer must re-execute iff the "
             "digest of what the node covers changed. Non-trivial: a tree edit happened and the consumer re-ran at least once."),
    "C14": b("histories of (expected outputs, roots) for a stale-file-removal command over a path pool with shared prefixes (/r vs /rr), "
             "trailing and doubled separators, relative paths, the empty string, directories with content, a path equal to a root, symbolic links "
             "(to a non-empty directory outside every root, and dangling); new "
             "frontend (process) per build; the set of paths removed from the simulated file system during the build (mutation log) "
             "must equal the statement's predicate, and nothing else may be touched. Non-trivial: >= 2 builds and a path was removed."),
    "C11": b("commands read undeclared paths spelled with every character special to the formats (space # $ backslash colon, relative, "
             "absolute, sub-directories) and report them in Makefile-style (single line, continuations, CRLF, several rules) or "
             "dependency-info files; recovered paths are compared byte for byte, later edits/creations/deletions of those paths must "
             "re-run the command, malformed files must fail it. Non-trivial: discovered dependencies were delivered."),
})

PROPS["C13"] = {
    "level": "exploration",
    "rule": "seeded pairs of observations of one path (missing / file / directory / symlink; through getFileInfo or, for half the symlinks and a "
            "quarter of the rest, getLinkInfo; one case in ten with empty content) with one mutation in between "
            "(none, content same size, content same size AND same mtime, content other size, mtime only, inode replaced only, inode and "
            "mtime, retype, delete, create, all-zero stat) x the three file-system modes, with short reads injected while checksumming; "
            "each comparison result is checked against the statement. Non-trivial: a run with at least three distinct mutation kinds.",
    "components": {"real": ["lib/Basic/FileInfo.cpp", "include/llbuild/Basic/FileInfo.h (FileChecksum, MD5 hasher)",
                            "lib/Basic/FileSystem.cpp (LocalFileSystem, DeviceAgnosticFileSystem, ChecksumOnlyFileSystem)", "llvm MD5"],
                   "simulated": ["file system and clock (simfs behind stat/lstat/readlink/fopen/fread)", "short reads in fread"],
                   "stub": [], "not_run": ["engine, build system, queues"]},
    "assumptions": ["this property has a clock and I/O but no schedule: it is claimed as exploration over simulated file states only",
                    "size equality after a retype is taken from the observations themselves"],
    "budget": {"quick": 30, "thorough": 600},
}

PROPS["C20"] = a("C01's generator restricted to what core.h can express (no signatures, no single-use, no rule redefinition), each history "
                 "executed once through the C++ interface and once through llb_buildengine_* / llb_task_* with the same rule/task logic "
                 "objects behind C callbacks, canonical completion mode; compared build by build (result, executed set, provided values, "
                 "callback sequence) and by the final database dump; force_change, must-follow, discovered dependencies, NUL bytes in keys and "
                 "values and attach_db schema versions are all generated; 15% of programs contain cycles, so builds abandoned by a cycle report and the "
                 "builds after them on the same engine are compared too. Every 5th seed runs a build-system history (world B) instead and then reads its "
                 "build.db through llb_database_open / get_epoch / get_keys / get_keys_and_results / lookup_rule_result / destroy_result and through the "
                 "C++ BuildDB interface, and compares keys, values, signatures, epochs and dependency lists. Non-trivial: an incremental build that both skipped and executed rules.")
PROPS["C20"]["components"] = dict(WORLD_A_COMPONENTS, real=WORLD_A_COMPONENTS["real"] + ["products/libllbuild/Core-C-API.cpp", "products/libllbuild/C-API.cpp",
                                                                                    "products/libllbuild/BuildDB-C-API.cpp + BuildKey-C-API.cpp (every 5th seed: llb_database_* "
                                                                                    "read-back of the database a world-B build history left, against the C++ BuildDB read-back)"])

WORLD_D_COMPONENTS = {
    "real": ["lib/Commands/NinjaBuildCommand.cpp (executeNinjaBuildCommand: option parsing, BuildContext, its BuildValue, validity rules, "
             "update-if-newer, SIGINT watcher thread, console queue)", "lib/Ninja/ManifestLoader.cpp / Lexer / Parser / Manifest",
             "lib/Core/BuildEngine.cpp", "lib/Core/SQLiteBuildDB.cpp", "lib/Core/MakefileDepsParser.cpp",
             "lib/Basic/LaneBasedExecutionQueue.cpp / SerialQueue", "lib/Basic/Subprocess.cpp", "lib/Basic/FileInfo.cpp", "SQLite (static)"],
    "simulated": ["file system and working directory (simfs)", "database disk (sqlite3_vfs)", "processes, pipes, poll/wait4 (simproc)",
                  "thread scheduling and clock (detsched)"],
    "stub": ["/bin/sh -c <command>: a simulated shell that splits the command line into words and runs the deterministic simulated compiler "
             "named by it (reads explicit and implicit inputs and #include lines, writes hashed outputs and gcc-style depfiles; a restat "
             "statement leaves an unchanged output alone)"],
    "not_run": ["ninja -t tools, tracing, SIGINT"],
}
PROPS["C18"] = {
    "level": "exploration",
    "rule": "seeded manifests (2-10 statements over rules cc / ccdep (depfile, deps=gcc) / ccrestat / ccgen / ccrsp (response file), explicit, implicit and order-only "
            "inputs, statements without inputs, depfiles naming an order-only input (generated header), two-output statements, pools of depth 1 and 2 and the "
            "console pool, a phony aggregate and default targets) x histories of {source and header "
            "edits, output deletions, manifest edits that change a command line (variable, order of $in), injected failures with retry (exit status, SIGSEGV, SIGKILL from outside, posix_spawn failing), "
            "immediate rebuilds} x -j1..4 x with/without --db x --no-regenerate x manifest regenerated by a build statement, each invocation a fresh executeNinjaBuildCommand under a "
            "seeded schedule. Oracles: outputs equal an independent clean-build evaluation after every successful invocation (C18.1); with "
            "the database, the set of executed commands equals a model of ninja's rule (never built / command line changed / output "
            "missing / explicit-implicit-discovered input changed / producer ran and changed its output) - no unnecessary run (C18.2, "
            "order-only edits included), no missed run (C18.3); a failure stops dependents, fails the invocation and is retried (C18.5); "
            "no command twice per invocation (C18.6). Non-trivial: at least two invocations, one of which skipped a command.",
    "components": WORLD_D_COMPONENTS,
    "assumptions": ["commands are deterministic functions of explicit, implicit and depfile-reported inputs",
                    "every edit is observable: the simulated clock is strictly monotonic, so an edited input is newer than every existing output",
                    "without --db nothing is remembered between invocations (llbuild's documented behaviour), so the no-unnecessary-work clauses are "
                    "only judged for runs with the database; contents, failure handling and retry are judged in both",
                    "generator statements are exempt from command-line edits (that is what the flag means)",
                    "preemption at synchronisation operations, simulated syscalls and harness yield points only"],
    "budget": {"quick": 60, "thorough": 1200},
}

# ThreadSanitizer stages beyond C06/C16: the same campaigns with the real sources instrumented and the scheduler not
PROPS["C05"]["tsan"] = {"quick": 15, "thorough": 200}
PROPS["C10"] = dict(PROPS["C10"], tsan={"quick": 15, "thorough": 200})
PROPS["C18"]["tsan"] = {"quick": 15, "thorough": 200}

PROPS["C05"]["rule"] += (" Every fourth seed runs the build-system variant instead: world B histories (descriptions, simulated compilers on the lane "
                         "queue) with BuildSystemFrontendDelegate::cancel() called from a foreign thread after n process starts; a cancelled build "
                         "must report failure, spawn nothing after cancel() returned, and later builds in new frontends over the same database and "
                         "half-written outputs must converge to clean-build contents.")
PROPS["C05"]["components"] = dict(PROPS["C05"]["components"])
PROPS["C05"]["components"]["real"] = list(PROPS["C05"]["components"]["real"]) + ["(every fourth seed) " + x for x in WORLD_B_COMPONENTS["real"][:6]]
PROPS["C05"]["components"]["simulated"] = list(PROPS["C05"]["components"]["simulated"]) + ["(every fourth seed) file system, processes, pipes, signals"]
PROPS["C05"]["components"]["stub"] = list(PROPS["C05"]["components"].get("stub", [])) + WORLD_B_COMPONENTS["stub"]

PROPS["C04"]["rule"] += (" Every fourth seed runs the build-system variant: the process dies before a sampled database call of a world B build while "
                         "simulated compilers are writing outputs; integrity check, stored epoch, and convergence of the rest of the history (new "
                         "frontends, edits that also revert files to earlier content) to clean-build contents. That share is sampled, not enumerated.")
PROPS["C04"]["components"] = dict(PROPS["C04"]["components"])
PROPS["C04"]["components"]["real"] = list(PROPS["C04"]["components"]["real"]) + ["(every fourth seed) " + x for x in WORLD_B_COMPONENTS["real"][:6]]
PROPS["C04"]["components"]["stub"] = list(PROPS["C04"]["components"].get("stub", [])) + WORLD_B_COMPONENTS["stub"]
