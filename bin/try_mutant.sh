#!/bin/bash
# usage: try_mutant.sh <property> <patch.diff> [budget_s] — applies a seeded change to /repo, runs the property's quick
# check, and always restores /repo afterwards.  Prints CAUGHT / MISSED / TROUBLE.
prop=$1; patch=$2; budget=${3:-60}
cd /verif
if ! git -C /repo diff --quiet -- lib include products; then echo "TROUBLE: /repo has local modifications"; exit 2; fi
git -C /repo apply "$patch" || { echo "TROUBLE: patch does not apply"; exit 2; }
log=$(mktemp)
VERIF_BUDGET_S=$budget VERIF_TSAN_BUDGET_S=${TSAN_BUDGET:-20} bin/vcheck $prop --tier quick > $log 2>&1
rc=$?
git -C /repo checkout -- lib include products
git -C /verif checkout -- evidence 2>/dev/null   # the evidence of a run on a deliberately broken tree is not the record to keep
if [ $rc -eq 1 ]; then echo "CAUGHT rc=1: $(grep -m1 '^VIOLATION' $log)"; grep -m1 -A2 '^REPLAY' $log | cut -c1-300
elif [ $rc -eq 0 ]; then echo "MISSED rc=0: $(tail -1 $log | cut -c1-200)"
else echo "TROUBLE rc=$rc"; tail -5 $log | cut -c1-300; fi
rm -f $log
