#!/bin/bash
# usage: verify_mutant.sh <worktree> <mutant-dir-name>...   — confirms a seeded change in its scratch worktree:
#   builds, all 7 unit-test binaries pass with the patch, demo fails with the patch, demo passes without.
# Writes <worktree>/MUTANTS/<m>/VERIFY.txt with the outcome lines.
wt=$1; shift
cd "$wt" || exit 2
src="lib include products unittests utils CMakeLists.txt"
git checkout -q -- $src 2>/dev/null
B=$(ls -d _build_c* _build-wt 2>/dev/null | head -1)
if [ -z "$B" ] && [ -f _build/CMakeCache.txt ] && grep -q "CMAKE_HOME_DIRECTORY:INTERNAL=$wt\$" _build/CMakeCache.txt; then B=_build; fi
if [ -z "$B" ]; then
  B=_vbuild
  if [ ! -f $B/build.ninja ]; then
    cmake -G Ninja -S . -B $B -DCMAKE_BUILD_TYPE=RelWithDebInfo -DCMAKE_CXX_COMPILER=clang++-16 -DCMAKE_C_COMPILER=clang-16 >/dev/null 2>&1 || { echo "configure failed"; exit 2; }
  fi
fi
build() { cmake --build $B >/dev/null 2>&1; }
tests() { local rc=0; for t in BasicTests BuildSystemTests CAPITests CASTests CoreTests EvoTests NinjaTests; do ./$B/bin/$t >/dev/null 2>&1 || { echo "  unit test binary $t FAILED"; rc=1; }; done; return $rc; }
for m in "$@"; do
  out=MUTANTS/$m/VERIFY.txt
  echo "build dir: $B" > $out
  git checkout -q -- $src ; git apply MUTANTS/$m/patch.diff 2>>$out || { echo "patch does not apply" >> $out; continue; }
  if build; then echo "builds with patch: yes" >> $out; else echo "builds with patch: NO" >> $out; git checkout -q -- $src; continue; fi
  if tests >> $out; then echo "unit tests with patch: pass" >> $out; else echo "unit tests with patch: FAIL" >> $out; fi
  if BUILD_DIR=$B timeout 900 bash MUTANTS/$m/run_demo.sh >/dev/null 2>&1; then echo "demo with patch: passes (BAD)" >> $out; else echo "demo with patch: fails (good)" >> $out; fi
  git checkout -q -- $src
  build
  if BUILD_DIR=$B timeout 900 bash MUTANTS/$m/run_demo.sh >/dev/null 2>&1; then echo "demo without patch: passes (good)" >> $out; else echo "demo without patch: FAILS (BAD)" >> $out; fi
  echo "== $wt $m"; cat $out
done
