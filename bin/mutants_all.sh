#!/bin/bash
# Re-applies every kept seeded change (seeded/<id>-mN/patch.diff) to /repo, runs the property's quick check with a short
# budget, restores /repo, and prints one line per change.  Regression test for the checks themselves; not part of any
# registered command.  usage: bin/mutants_all.sh [budget_s] [prefix]
cd /verif
budget=${1:-45}; prefix=${2:-}
for d in seeded/${prefix}*; do
  id=$(basename $d); prop=${id%%-*}
  printf "%s: " $id
  bin/try_mutant.sh $prop $PWD/$d/patch.diff $budget 2>&1 | grep -v '^RESULT' | head -1 | cut -c1-160
done
