#!/bin/sh
# Runs the repository's pinned suite (gtest binaries of /repo/_build) with the LLBUILD_VERIF guard OFF
# (the CMake build never defines it).  Exit 0 iff every binary passes.
cmake --build /repo/_build >/dev/null || { echo "FAIL build"; exit 1; }
rc=0
total=0
log=$(mktemp)
for t in BasicTests BuildSystemTests CAPITests CASTests CoreTests EvoTests NinjaTests; do
  if [ -x /repo/_build/bin/$t ]; then
    if /repo/_build/bin/$t > "$log" 2>&1; then
      n=$(grep -c '^\[       OK \]' "$log")
      total=$((total + n))
      echo "PASS $t: $n tests"
    else
      echo "FAIL $t"; grep -E 'FAILED|Failure' "$log" | head -20; rc=1
    fi
  fi
done
rm -f "$log"
echo "TOTAL passed: $total"
exit $rc
