#!/usr/bin/env python3
"""collect_mutant.py <property> <mN> <caught-by-clause-or-MISSED> <needs...>  — copies a verified seeded change from its scratch
worktree /tmp/wt-<property>/MUTANTS/<mN> into /verif/seeded/<property>-<mN>/ with a meta.json."""
import json, os, shutil, sys
prop, m, caught = sys.argv[1], sys.argv[2], sys.argv[3]
needs = " ".join(sys.argv[4:])
src = "/tmp/wt-%s/MUTANTS/%s" % (prop, m)
dst = "/verif/seeded/%s-%s" % (prop, os.environ.get("MUTANT_AS", m))   # MUTANT_AS=m3: second-round changes arrive as m1/m2 again
os.makedirs(dst, exist_ok=True)
for fn in os.listdir(src):
    p = os.path.join(src, fn)
    if os.path.isfile(p) and os.path.getsize(p) < 400000:
        shutil.copy(p, os.path.join(dst, fn))
verify = open(os.path.join(src, "VERIFY.txt")).read().strip().splitlines() if os.path.exists(os.path.join(src, "VERIFY.txt")) else []
meta = {
    "property": prop,
    "origin": os.environ.get("MUTANT_ORIGIN", "independent sub-agent given only the property text and a scratch worktree"),
    "needs_to_manifest": needs,
    "confirmed_in_scratch_worktree": verify,
    "commands_run": [
        "bin/verify_mutant.sh /tmp/wt-%s %s   (fresh build dir; apply patch; 7 unit-test binaries; run_demo.sh; revert; run_demo.sh)" % (prop, m),
        "bin/try_mutant.sh %s seeded/%s-%s/patch.diff 30   (git -C /repo apply; bin/vcheck %s --tier quick; git -C /repo checkout)" % (prop, prop, m, prop),
    ],
    "detected_by": caught,
}
json.dump(meta, open(os.path.join(dst, "meta.json"), "w"), indent=1)
print("collected", dst)
