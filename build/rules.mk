# Builds /repo's current working tree + the simulator into /verif/.build/$(CFG)/vsim
# usage: make -f build/rules.mk CFG=asan|plain|tsan -j16
CFG ?= asan
REPO ?= /repo
V := $(abspath $(dir $(lastword $(MAKEFILE_LIST)))/..)
B := $(V)/.build/$(CFG)
CXX := clang++-14
CC := clang-14

SAN_asan := -fsanitize=address,undefined -fno-sanitize=vptr,function -fno-sanitize-recover=undefined -fno-omit-frame-pointer
SAN_plain :=
SAN_tsan := -fsanitize=thread -fno-omit-frame-pointer
SAN := $(SAN_$(CFG))
OPT_asan := -O1
OPT_plain := -O1
OPT_tsan := -O1
OPT := $(OPT_$(CFG))

REPO_DIRS := lib/Evo lib/llvm/Support lib/llvm/Demangle lib/Basic lib/Core lib/BuildSystem lib/Ninja lib/Commands products/libllbuild
REPO_SRCS := $(foreach d,$(REPO_DIRS),$(wildcard $(REPO)/$(d)/*.cpp))
REPO_OBJS := $(patsubst $(REPO)/%.cpp,$(B)/repo/%.o,$(REPO_SRCS))

REPO_CXXFLAGS := -std=c++14 -fno-rtti -fno-exceptions -DNDEBUG -DLLBUILD_VERIF=1 \
  -I$(REPO)/include -I$(REPO)/lib/llvm/Support -I$(REPO)/products/libllbuild/include -I$(REPO)/lib/Commands \
  -include $(REPO)/include/libstdc++14-workaround.h -w -g $(OPT) $(SAN)

H_SRCS := $(wildcard $(V)/sim/*.cpp) $(wildcard $(V)/worlds/*.cpp)
H_OBJS := $(patsubst $(V)/%.cpp,$(B)/h/%.o,$(H_SRCS))
# harness: exceptions off too (it links against -fno-rtti code and subclasses its classes)
H_CXXFLAGS := -std=c++17 -fno-rtti -fno-exceptions -DNDEBUG -DLLBUILD_VERIF=1 \
  -I$(REPO)/include -I$(REPO)/lib/llvm/Support -I$(REPO)/products/libllbuild/include -I$(REPO)/lib/Commands -I$(V) \
  -Wall -Wno-unused-function -Wno-unused-variable -Wno-deprecated-declarations -g $(OPT)

# Under tsan no harness TU is instrumented (DESIGN 2.2): the scheduler's hand-offs and the harness's own
# cross-thread bookkeeping must stay invisible to the race detector, which then judges repository code only
# (plus the __tsan_acquire/__tsan_release annotations of the modelled mutexes).
SANH_asan := $(SAN_asan)
SANH_plain :=
SANH_tsan :=
SAN_H := $(SANH_$(CFG))

WRAPS := $(shell sed -e 's/\#.*//' -e '/^\s*$$/d' $(V)/build/wraps.txt)
WRAPFLAGS := $(foreach w,$(WRAPS),-Wl,--wrap=$(w))

LIBS := /usr/lib/x86_64-linux-gnu/libsqlite3.a -lncurses -ldl -lm -pthread -lz

all: $(B)/vsim

# rebuild everything when the flags or this makefile change
FLAGS_SIG := $(REPO_CXXFLAGS) | $(H_CXXFLAGS) | $(SAN_H) | $(WRAPFLAGS)
$(B)/flags.stamp: FORCE
	@mkdir -p $(B)
	@echo '$(FLAGS_SIG)' | cmp -s - $@ || echo '$(FLAGS_SIG)' > $@
FORCE:

$(B)/repo/%.o: $(REPO)/%.cpp $(B)/flags.stamp
	@mkdir -p $(dir $@)
	$(CXX) $(REPO_CXXFLAGS) -MMD -MP -c $< -o $@

$(B)/h/%.o: $(V)/%.cpp $(B)/flags.stamp
	@mkdir -p $(dir $@)
	$(CXX) $(H_CXXFLAGS) $(SAN_H) -MMD -MP -c $< -o $@

$(B)/vsim: $(REPO_OBJS) $(H_OBJS) $(V)/build/wraps.txt
	$(CXX) $(SAN) -static-libstdc++ $(WRAPFLAGS) -o $@ $(H_OBJS) $(REPO_OBJS) $(LIBS)

-include $(REPO_OBJS:.o=.d) $(H_OBJS:.o=.d)
.PHONY: all FORCE
