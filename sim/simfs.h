// simfs — in-memory POSIX-like file tree under the virtual root /sim (DESIGN 2.3)
#pragma once
#include <cstdint>
#include <functional>
#include <map>
#include <memory>
#include <string>
#include <vector>

namespace simfs {

struct Inode;
typedef std::shared_ptr<Inode> InodeP;

struct Inode {
  enum Type { File, Dir, Symlink } type = File;
  std::string data;                       // file bytes or symlink target
  std::map<std::string, InodeP> entries;  // Dir
  uint64_t ino = 0;
  uint64_t dev = 0x51;
  uint64_t mtime_ns = 0;
  uint64_t ctime_ns = 0;
  uint32_t mode = 0644;
  uint32_t nlink = 1;
  bool zeroStat = false;   // stat() of this object returns all-zero fields (exotic file system)
};

struct Mutation {
  enum Kind { Create, Write, Unlink, Rmdir, Mkdir, Rename, Symlink, Truncate, Touch } kind;
  std::string path;
  std::string actor;   // simulated process / harness tag active when it happened
  int build = 0;
};

struct StatBuf {
  Inode::Type type;
  uint64_t ino, dev, size, mtime_ns, ctime_ns;
  uint32_t mode, nlink;
};

class FS {
public:
  FS();
  // deep copy (snapshot for crash simulation)
  std::unique_ptr<FS> clone() const;

  static bool isSimPath(const char* path);          // absolute path under /sim
  std::string absolute(const std::string& path) const; // resolves relative paths against cwd (lexically)

  // All return 0 or a positive errno.
  int lookup(const std::string& path, bool followLast, InodeP* out, std::string* canon = nullptr) const;
  int stat(const std::string& path, bool followLast, StatBuf* out) const;
  int createFile(const std::string& path, bool excl, bool trunc, InodeP* out, uint32_t mode = 0644);
  int writeFile(const std::string& path, const std::string& bytes);   // create or replace contents (keeps inode)
  int readFile(const std::string& path, std::string* out) const;
  int mkdir(const std::string& path, uint32_t mode = 0755);
  int mkdirs(const std::string& path);
  int unlink(const std::string& path);
  int rmdir(const std::string& path);
  int removeAll(const std::string& path);      // harness helper: rm -rf
  int rename(const std::string& from, const std::string& to);
  int symlink(const std::string& target, const std::string& linkpath);
  int readlink(const std::string& path, std::string* out) const;
  int truncate(const InodeP& ino, uint64_t size);
  int chdir(const std::string& path);
  int listdir(const std::string& path, std::vector<std::string>* names) const;
  int realpath(const std::string& path, std::string* out) const;
  void fillStat(const InodeP& ino, StatBuf* out) const;
  // harness controls
  int setMtime(const std::string& path, uint64_t ns);
  int replaceInode(const std::string& path);   // same content, new inode number (rename-over semantics)
  void touched(const InodeP& ino);             // stamp mtime/ctime from the clock

  // every mutation through this API is logged
  std::vector<Mutation> log;
  std::string actor = "harness";
  int build = 0;
  std::string cwd = "/sim";
  uint64_t readdirSalt = 0;   // permutes readdir order

  InodeP root;   // the inode of /sim
  uint64_t nextIno = 1000;

  // clock source (defaults to sim::tick_ns)
  std::function<uint64_t()> clock;

private:
  int walk(const std::string& abs, bool followLast, InodeP* parentOut, std::string* leafOut, InodeP* out,
           std::string* canon, int depth) const;
  void record(Mutation::Kind k, const std::string& path);
  InodeP newInode(Inode::Type t, uint32_t mode);
  uint64_t stamp() const;
};

// relative paths go to simfs (after a chdir into /sim or when switched on explicitly)
void useSimCwd(bool on);
// maximum number of bytes one stdio read callback returns (0: unlimited) — short-read fault
size_t freadChunk();
void setFreadChunk(std::function<size_t()> f);

// The file system the libc wrappers and the SQLite VFS operate on.
FS& fs();
void setFS(std::unique_ptr<FS> f);
std::unique_ptr<FS> takeFS();

} // namespace simfs
