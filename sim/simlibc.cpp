// libc wrappers that redirect paths under /sim to simfs (DESIGN 2.3)
#include "sim/simfs.h"

#include <cerrno>
#include <unistd.h>

extern "C" {
int __real_unlink(const char*);

int __wrap_unlink(const char* path) {
  if (!simfs::FS::isSimPath(path)) return __real_unlink(path);
  int rc = simfs::fs().unlink(path);
  if (rc) {
    errno = rc;
    return -1;
  }
  return 0;
}
}
