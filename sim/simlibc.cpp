// libc wrappers that redirect paths under /sim (and descriptors opened there) to simfs (DESIGN 2.3).
// Every other path/descriptor passes through to the real function.
#include "sim/detsched.h"
#include "sim/simfs.h"
#include "sim/simos.h"

#include <cerrno>
#include <cstdarg>
#include <cstdio>
#include <cstdlib>
#include <cstring>
#include <dirent.h>
#include <fcntl.h>
#include <set>
#include <sys/mman.h>
#include <sys/stat.h>
#include <sys/statfs.h>
#include <sys/time.h>
#include <unistd.h>

using simfs::FS;
using simfs::fs;

extern "C" {
int __real_unlink(const char*);
int __real_stat(const char*, struct stat*);
int __real_lstat(const char*, struct stat*);
int __real_fstat(int, struct stat*);
int __real_access(const char*, int);
int __real_open(const char*, int, ...);
int __real_mkdir(const char*, mode_t);
int __real_rmdir(const char*);
int __real_remove(const char*);
int __real_rename(const char*, const char*);
int __real_symlink(const char*, const char*);
ssize_t __real_readlink(const char*, char*, size_t);
char* __real_realpath(const char*, char*);
char* __real_getcwd(char*, size_t);
int __real_chdir(const char*);
int __real_chmod(const char*, mode_t);
int __real_link(const char*, const char*);
DIR* __real_opendir(const char*);
struct dirent* __real_readdir(DIR*);
int __real_closedir(DIR*);
FILE* __real_fopen(const char*, const char*);
void* __real_mmap(void*, size_t, int, int, int, off_t);
int __real_statfs(const char*, struct statfs*);
int __real_fstatfs(int, struct statfs*);
int __real_futimes(int, const struct timeval[2]);
char* __real_mkdtemp(char*);
}

namespace {

struct SimDir {
  uint64_t magic = 0x51D1D1D1;
  std::vector<std::string> names;
  std::vector<simfs::Inode::Type> types;
  std::vector<uint64_t> inos;
  size_t pos = 0;
  struct dirent ent;
};
std::set<void*> g_dirs;

// relative paths are simulated when the simulated working directory is in use
bool g_simCwd = false;

bool isSim(const char* path) {
  if (!path) return false;
  if (FS::isSimPath(path)) return true;
  if (path[0] != '/' && g_simCwd) return true;
  return false;
}

int fail(int e) {
  errno = e;
  return -1;
}

void fillStat(const simfs::StatBuf& sb, struct stat* st) {
  memset(st, 0, sizeof(*st));
  st->st_dev = sb.dev;
  st->st_ino = sb.ino;
  st->st_nlink = sb.nlink;
  st->st_mode = sb.mode | (sb.type == simfs::Inode::Dir ? S_IFDIR : sb.type == simfs::Inode::Symlink ? S_IFLNK : S_IFREG);
  st->st_uid = 0;
  st->st_gid = 0;
  st->st_size = (off_t)sb.size;
  st->st_blksize = 4096;
  st->st_blocks = (sb.size + 511) / 512;
  st->st_mtim.tv_sec = (time_t)(sb.mtime_ns / 1000000000ULL);
  st->st_mtim.tv_nsec = (long)(sb.mtime_ns % 1000000000ULL);
  st->st_ctim.tv_sec = (time_t)(sb.ctime_ns / 1000000000ULL);
  st->st_ctim.tv_nsec = (long)(sb.ctime_ns % 1000000000ULL);
  st->st_atim = st->st_mtim;
}

} // namespace

namespace simfs {
void useSimCwd(bool on) { g_simCwd = on; }
}

extern "C" {

int __wrap_unlink(const char* path) {
  if (!isSim(path)) return __real_unlink(path);
  int rc = fs().unlink(path);
  return rc ? fail(rc) : 0;
}

int __wrap_stat(const char* path, struct stat* st) {
  if (!isSim(path)) return __real_stat(path, st);
  simfs::StatBuf sb;
  int rc = fs().stat(path, true, &sb);
  if (rc) return fail(rc);
  fillStat(sb, st);
  {
    simfs::InodeP ino;
    if (fs().lookup(path, true, &ino) == 0 && ino->zeroStat) memset(st, 0, sizeof(*st));
  }
  return 0;
}

int __wrap_lstat(const char* path, struct stat* st) {
  if (!isSim(path)) return __real_lstat(path, st);
  simfs::StatBuf sb;
  int rc = fs().stat(path, false, &sb);
  if (rc) return fail(rc);
  fillStat(sb, st);
  return 0;
}

int __wrap_fstat(int fd, struct stat* st) {
  if (!simos::isSimFd(fd)) return __real_fstat(fd, st);
  auto it = simos::fds().find(fd);
  if (it == simos::fds().end()) return fail(EBADF);
  if (it->second.kind == simos::Fd::File) {
    simfs::StatBuf sb;
    fs().fillStat(it->second.file->ino, &sb);
    fillStat(sb, st);
    return 0;
  }
  memset(st, 0, sizeof(*st));
  st->st_mode = it->second.kind == simos::Fd::Null ? S_IFCHR | 0666 : S_IFIFO | 0600;
  return 0;
}

int __wrap_access(const char* path, int mode) {
  if (!isSim(path)) return __real_access(path, mode);
  simfs::StatBuf sb;
  int rc = fs().stat(path, true, &sb);
  if (rc) return fail(rc);
  if ((mode & X_OK) && sb.type == simfs::Inode::File && !(sb.mode & 0111)) return fail(EACCES);
  return 0;
}

int __wrap_open(const char* path, int flags, ...) {
  mode_t mode = 0;
  if (flags & O_CREAT) {
    va_list ap;
    va_start(ap, flags);
    mode = (mode_t)va_arg(ap, int);
    va_end(ap);
  }
  if (!isSim(path)) return __real_open(path, flags, mode);
  simfs::InodeP ino;
  int rc;
  if (flags & O_CREAT) rc = fs().createFile(path, (flags & O_EXCL) != 0, (flags & O_TRUNC) != 0, &ino, mode & 0777);
  else {
    rc = fs().lookup(path, !(flags & O_NOFOLLOW), &ino);
    if (!rc && (flags & O_TRUNC) && ino->type == simfs::Inode::File) fs().truncate(ino, 0);
  }
  if (rc) return fail(rc);
  if ((flags & O_DIRECTORY) && ino->type != simfs::Inode::Dir) return fail(ENOTDIR);
  if (ino->type == simfs::Inode::Dir && (flags & O_ACCMODE) != O_RDONLY) return fail(EISDIR);
  simos::Fd f;
  f.kind = simos::Fd::File;
  f.file = std::make_shared<simos::OpenFile>();
  f.file->ino = ino;
  f.file->flags = flags;
  f.file->path = fs().absolute(path);
  f.cloexec = (flags & O_CLOEXEC) != 0;
  return simos::allocFd(f);
}

int __wrap_mkdir(const char* path, mode_t mode) {
  if (!isSim(path)) return __real_mkdir(path, mode);
  int rc = fs().mkdir(path, mode & 0777);
  return rc ? fail(rc) : 0;
}

int __wrap_rmdir(const char* path) {
  if (!isSim(path)) return __real_rmdir(path);
  int rc = fs().rmdir(path);
  return rc ? fail(rc) : 0;
}

int __wrap_remove(const char* path) {
  if (!isSim(path)) return __real_remove(path);
  simfs::StatBuf sb;
  int rc = fs().stat(path, false, &sb);
  if (rc) return fail(rc);
  rc = sb.type == simfs::Inode::Dir ? fs().rmdir(path) : fs().unlink(path);
  return rc ? fail(rc) : 0;
}

int __wrap_rename(const char* from, const char* to) {
  if (!isSim(from) && !isSim(to)) return __real_rename(from, to);
  if (!isSim(from) || !isSim(to)) return fail(EXDEV);
  int rc = fs().rename(from, to);
  return rc ? fail(rc) : 0;
}

int __wrap_symlink(const char* target, const char* linkpath) {
  if (!isSim(linkpath)) return __real_symlink(target, linkpath);
  int rc = fs().symlink(target, linkpath);
  return rc ? fail(rc) : 0;
}

ssize_t __wrap_readlink(const char* path, char* buf, size_t len) {
  if (!isSim(path)) return __real_readlink(path, buf, len);
  std::string t;
  int rc = fs().readlink(path, &t);
  if (rc) return fail(rc);
  size_t n = std::min(len, t.size());
  memcpy(buf, t.data(), n);
  return (ssize_t)n;
}

char* __wrap_realpath(const char* path, char* resolved) {
  if (!isSim(path)) return __real_realpath(path, resolved);
  std::string out;
  int rc = fs().realpath(path, &out);
  if (rc) {
    errno = rc;
    return nullptr;
  }
  if (!resolved) resolved = (char*)malloc(out.size() + 1 > 4096 ? out.size() + 1 : 4096);
  memcpy(resolved, out.c_str(), out.size() + 1);
  return resolved;
}

char* __wrap_getcwd(char* buf, size_t size) {
  if (!g_simCwd) return __real_getcwd(buf, size);
  const std::string& c = fs().cwd;
  if (!buf) {
    buf = (char*)malloc(c.size() + 1 > size ? c.size() + 1 : size);
  } else if (c.size() + 1 > size) {
    errno = ERANGE;
    return nullptr;
  }
  memcpy(buf, c.c_str(), c.size() + 1);
  return buf;
}

int __wrap_chdir(const char* path) {
  if (!isSim(path)) {
    if (g_simCwd) return fail(ENOENT);
    return __real_chdir(path);
  }
  int rc = fs().chdir(path);
  if (rc) return fail(rc);
  g_simCwd = true;
  return 0;
}

int __wrap_chmod(const char* path, mode_t mode) {
  if (!isSim(path)) return __real_chmod(path, mode);
  simfs::InodeP ino;
  int rc = fs().lookup(path, true, &ino);
  if (rc) return fail(rc);
  ino->mode = mode & 07777;
  return 0;
}

int __wrap_link(const char* from, const char* to) {
  if (!isSim(from) && !isSim(to)) return __real_link(from, to);
  return fail(EPERM);
}

DIR* __wrap_opendir(const char* path) {
  if (!isSim(path)) return __real_opendir(path);
  simfs::InodeP ino;
  int rc = fs().lookup(path, true, &ino);
  if (rc) {
    errno = rc;
    return nullptr;
  }
  if (ino->type != simfs::Inode::Dir) {
    errno = ENOTDIR;
    return nullptr;
  }
  SimDir* d = new SimDir();
  fs().listdir(path, &d->names);
  for (auto& n : d->names) {
    auto& e = ino->entries[n];
    d->types.push_back(e->type);
    d->inos.push_back(e->ino);
  }
  g_dirs.insert(d);
  return reinterpret_cast<DIR*>(d);
}

struct dirent* __wrap_readdir(DIR* dp) {
  if (!g_dirs.count(dp)) return __real_readdir(dp);
  SimDir* d = reinterpret_cast<SimDir*>(dp);
  if (d->pos >= d->names.size()) return nullptr;
  memset(&d->ent, 0, sizeof(d->ent));
  d->ent.d_ino = d->inos[d->pos];
  d->ent.d_type = d->types[d->pos] == simfs::Inode::Dir ? DT_DIR : d->types[d->pos] == simfs::Inode::Symlink ? DT_LNK : DT_REG;
  strncpy(d->ent.d_name, d->names[d->pos].c_str(), sizeof(d->ent.d_name) - 1);
  d->pos++;
  return &d->ent;
}

int __wrap_closedir(DIR* dp) {
  if (!g_dirs.count(dp)) return __real_closedir(dp);
  g_dirs.erase(dp);
  delete reinterpret_cast<SimDir*>(dp);
  return 0;
}

void* __wrap_mmap(void* addr, size_t len, int prot, int flags, int fd, off_t off) {
  if (simos::isSimFd(fd)) {
    // makes llvm::MemoryBuffer fall back to read()
    errno = ENODEV;
    return MAP_FAILED;
  }
  return __real_mmap(addr, len, prot, flags, fd, off);
}

int __wrap_statfs(const char* path, struct statfs* st) {
  if (!isSim(path)) return __real_statfs(path, st);
  simfs::StatBuf sb;
  int rc = fs().stat(path, true, &sb);
  if (rc) return fail(rc);
  memset(st, 0, sizeof(*st));
  st->f_type = 0xEF53;
  st->f_bsize = 4096;
  return 0;
}

int __wrap_fstatfs(int fd, struct statfs* st) {
  if (!simos::isSimFd(fd)) return __real_fstatfs(fd, st);
  memset(st, 0, sizeof(*st));
  st->f_type = 0xEF53;
  st->f_bsize = 4096;
  return 0;
}

int __wrap_futimes(int fd, const struct timeval tv[2]) {
  if (!simos::isSimFd(fd)) return __real_futimes(fd, tv);
  auto it = simos::fds().find(fd);
  if (it == simos::fds().end() || it->second.kind != simos::Fd::File) return fail(EBADF);
  if (tv) it->second.file->ino->mtime_ns = (uint64_t)tv[1].tv_sec * 1000000000ULL + (uint64_t)tv[1].tv_usec * 1000ULL;
  else fs().touched(it->second.file->ino);
  return 0;
}

char* __wrap_mkdtemp(char* tmpl) {
  if (!isSim(tmpl)) return __real_mkdtemp(tmpl);
  size_t n = strlen(tmpl);
  static unsigned counter = 0;
  for (int tries = 0; tries < 100; tries++) {
    char suffix[8];
    snprintf(suffix, sizeof suffix, "%06u", counter++ % 1000000);
    if (n >= 6) memcpy(tmpl + n - 6, suffix, 6);
    if (fs().mkdir(tmpl, 0700) == 0) return tmpl;
  }
  errno = EEXIST;
  return nullptr;
}

// ---- stdio on simulated files via fopencookie
struct Cookie {
  simfs::InodeP ino;
  size_t off = 0;
  bool append = false;
};

static ssize_t ckRead(void* c, char* buf, size_t n) {
  Cookie* k = (Cookie*)c;
  const std::string& d = k->ino->data;
  if (k->off >= d.size()) return 0;
  size_t m = std::min(n, d.size() - k->off);
  size_t lim = simfs::freadChunk();
  if (lim && m > lim) m = lim;
  memcpy(buf, d.data() + k->off, m);
  k->off += m;
  return (ssize_t)m;
}
static ssize_t ckWrite(void* c, const char* buf, size_t n) {
  Cookie* k = (Cookie*)c;
  std::string& d = k->ino->data;
  if (k->append) k->off = d.size();
  if (d.size() < k->off + n) d.resize(k->off + n);
  memcpy(&d[k->off], buf, n);
  k->off += n;
  fs().touched(k->ino);
  return (ssize_t)n;
}
static int ckSeek(void* c, off64_t* off, int whence) {
  Cookie* k = (Cookie*)c;
  size_t base = whence == SEEK_SET ? 0 : whence == SEEK_CUR ? k->off : k->ino->data.size();
  k->off = base + (size_t)*off;
  *off = (off64_t)k->off;
  return 0;
}
static int ckClose(void* c) {
  delete (Cookie*)c;
  return 0;
}

FILE* __wrap_fopen(const char* path, const char* mode) {
  if (!isSim(path)) return __real_fopen(path, mode);
  bool rd = mode[0] == 'r', wr = mode[0] == 'w', ap = mode[0] == 'a';
  simfs::InodeP ino;
  int rc;
  if (rd) rc = fs().lookup(path, true, &ino);
  else rc = fs().createFile(path, false, wr, &ino);
  if (rc) {
    errno = rc;
    return nullptr;
  }
  if (ino->type == simfs::Inode::Dir && !rd) {
    errno = EISDIR;
    return nullptr;
  }
  Cookie* k = new Cookie();
  k->ino = ino;
  k->append = ap;
  cookie_io_functions_t io = {ckRead, ckWrite, ckSeek, ckClose};
  FILE* f = fopencookie(k, mode, io);
  if (!f) delete k;
  return f;
}

} // extern "C"
