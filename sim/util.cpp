#include "sim/util.h"

#include <cstring>

namespace util {

static void dumpStr(const std::string& s, std::string& o) {
  o += '"';
  for (unsigned char c : s) {
    switch (c) {
    case '"': o += "\\\""; break;
    case '\\': o += "\\\\"; break;
    case '\n': o += "\\n"; break;
    case '\t': o += "\\t"; break;
    case '\r': o += "\\r"; break;
    default:
      if (c < 32 || c >= 127) { char b[8]; snprintf(b, sizeof b, "\\u%04x", c); o += b; }
      else o += (char)c;
    }
  }
  o += '"';
}

static void dumpRec(const Json& j, std::string& o, int indent, int level) {
  auto nl = [&](int lv) {
    if (indent < 0) return;
    o += '\n';
    o.append((size_t)(indent * lv), ' ');
  };
  switch (j.kind) {
  case Json::Null: o += "null"; break;
  case Json::Bool: o += j.b ? "true" : "false"; break;
  case Json::Num: o += std::to_string(j.n); break;
  case Json::Str: dumpStr(j.s, o); break;
  case Json::Arr: {
    o += '[';
    bool scalar = true;
    for (auto& e : j.a) if (e.kind == Json::Arr || e.kind == Json::Obj) scalar = false;
    for (size_t i = 0; i < j.a.size(); i++) {
      if (i) o += ',';
      if (!scalar) nl(level + 1);
      dumpRec(j.a[i], o, indent, level + 1);
    }
    if (!scalar && !j.a.empty()) nl(level);
    o += ']';
    break;
  }
  case Json::Obj: {
    o += '{';
    for (size_t i = 0; i < j.o.size(); i++) {
      if (i) o += ',';
      nl(level + 1);
      dumpStr(j.o[i].first, o);
      o += indent < 0 ? ":" : ": ";
      dumpRec(j.o[i].second, o, indent, level + 1);
    }
    if (!j.o.empty()) nl(level);
    o += '}';
    break;
  }
  }
}

std::string Json::dump(int indent) const {
  std::string o;
  dumpRec(*this, o, indent, 0);
  return o;
}

namespace {
struct P {
  const std::string& t;
  size_t i = 0;
  std::string err;
  explicit P(const std::string& s) : t(s) {}
  void ws() { while (i < t.size() && (t[i] == ' ' || t[i] == '\n' || t[i] == '\t' || t[i] == '\r')) i++; }
  bool val(Json* out) {
    ws();
    if (i >= t.size()) { err = "eof"; return false; }
    char c = t[i];
    if (c == '{') {
      i++; *out = Json::obj(); ws();
      if (i < t.size() && t[i] == '}') { i++; return true; }
      for (;;) {
        ws();
        Json k;
        if (!str(&k)) return false;
        ws();
        if (i >= t.size() || t[i] != ':') { err = "expected :"; return false; }
        i++;
        Json v;
        if (!val(&v)) return false;
        out->o.push_back({k.s, v});
        ws();
        if (i < t.size() && t[i] == ',') { i++; continue; }
        if (i < t.size() && t[i] == '}') { i++; return true; }
        err = "expected , or }"; return false;
      }
    }
    if (c == '[') {
      i++; *out = Json::arr(); ws();
      if (i < t.size() && t[i] == ']') { i++; return true; }
      for (;;) {
        Json v;
        if (!val(&v)) return false;
        out->a.push_back(v);
        ws();
        if (i < t.size() && t[i] == ',') { i++; continue; }
        if (i < t.size() && t[i] == ']') { i++; return true; }
        err = "expected , or ]"; return false;
      }
    }
    if (c == '"') return str(out);
    if (!strncmp(t.c_str() + i, "true", 4)) { i += 4; *out = Json::boolean(true); return true; }
    if (!strncmp(t.c_str() + i, "false", 5)) { i += 5; *out = Json::boolean(false); return true; }
    if (!strncmp(t.c_str() + i, "null", 4)) { i += 4; *out = Json(); return true; }
    size_t j = i;
    if (j < t.size() && (t[j] == '-' || t[j] == '+')) j++;
    while (j < t.size() && ((t[j] >= '0' && t[j] <= '9') || t[j] == '.' || t[j] == 'e' || t[j] == 'E' || t[j] == '-' || t[j] == '+')) j++;
    if (j == i) { err = "unexpected character"; return false; }
    std::string numtxt = t.substr(i, j - i);
    bool neg = numtxt[0] == '-';
    uint64_t mag = strtoull(numtxt.c_str() + (neg || numtxt[0] == '+' ? 1 : 0), nullptr, 10);
    *out = Json::num(neg ? -(int64_t)mag : (int64_t)mag);
    i = j;
    return true;
  }
  bool str(Json* out) {
    if (i >= t.size() || t[i] != '"') { err = "expected string"; return false; }
    i++;
    std::string s;
    while (i < t.size() && t[i] != '"') {
      if (t[i] == '\\' && i + 1 < t.size()) {
        char e = t[i + 1];
        i += 2;
        switch (e) {
        case 'n': s += '\n'; break;
        case 't': s += '\t'; break;
        case 'r': s += '\r'; break;
        case 'b': s += '\b'; break;
        case 'f': s += '\f'; break;
        case 'u': {
          unsigned v = (unsigned)strtoul(t.substr(i, 4).c_str(), nullptr, 16);
          i += 4;
          s += (char)(v & 0xff); // we only ever emit \u00XX
          break;
        }
        default: s += e;
        }
      } else {
        s += t[i++];
      }
    }
    if (i >= t.size()) { err = "unterminated string"; return false; }
    i++;
    *out = Json::str(s);
    return true;
  }
};
} // namespace

bool Json::parse(const std::string& text, Json* out, std::string* err) {
  P p(text);
  if (!p.val(out)) {
    if (err) *err = p.err + " at " + std::to_string(p.i);
    return false;
  }
  return true;
}

bool readFile(const std::string& path, std::string* out) {
  FILE* f = fopen(path.c_str(), "rb");
  if (!f) return false;
  char buf[65536];
  size_t n;
  out->clear();
  while ((n = fread(buf, 1, sizeof buf, f)) > 0) out->append(buf, n);
  fclose(f);
  return true;
}

bool writeFile(const std::string& path, const std::string& data) {
  FILE* f = fopen(path.c_str(), "wb");
  if (!f) return false;
  fwrite(data.data(), 1, data.size(), f);
  fclose(f);
  return true;
}

} // namespace util
