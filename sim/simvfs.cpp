#include "sim/simvfs.h"
#include "sim/detsched.h"
#include "sim/simfs.h"

#include <sqlite3.h>

#include <cerrno>
#include <cstring>
#include <map>
#include <new>

namespace simvfs {
namespace {

struct SimFile {
  sqlite3_file base;
  simfs::InodeP ino;
  std::string path;
  int lock = SQLITE_LOCK_NONE;
  bool deleteOnClose = false;
};

Hook g_hook;
uint64_t g_counter = 0;
Stats g_stats;
uint64_t g_rand = 0x853c49e6748fea9bULL;
int g_handles = 0;

// lock table: per inode, level held by each handle
std::map<simfs::Inode*, std::map<SimFile*, int>> g_locks;

int pre(const char* op, const char* path, int64_t off = 0, int amt = 0) {
  Call c;
  c.op = op;
  c.path = path ? path : "";
  c.index = g_counter++;
  c.offset = off;
  c.amount = amt;
  g_stats.calls++;
  if (g_hook) {
    int rc = g_hook(c);
    if (rc) g_stats.injected++;
    return rc;
  }
  return 0;
}

int xClose(sqlite3_file* f) {
  SimFile* p = reinterpret_cast<SimFile*>(f);
  pre("close", p->path.c_str());
  if (p->ino) {
    auto it = g_locks.find(p->ino.get());
    if (it != g_locks.end()) {
      it->second.erase(p);
      if (it->second.empty()) g_locks.erase(it);
    }
  }
  if (p->deleteOnClose && !p->path.empty()) simfs::fs().unlink(p->path);
  p->~SimFile();
  g_handles--;
  return SQLITE_OK;
}

int xRead(sqlite3_file* f, void* buf, int amt, sqlite3_int64 off) {
  SimFile* p = reinterpret_cast<SimFile*>(f);
  if (int rc = pre("read", p->path.c_str(), off, amt)) return rc;
  g_stats.reads++;
  const std::string& d = p->ino->data;
  if (off >= (sqlite3_int64)d.size()) {
    memset(buf, 0, amt);
    return SQLITE_IOERR_SHORT_READ;
  }
  size_t avail = d.size() - (size_t)off;
  if (avail >= (size_t)amt) {
    memcpy(buf, d.data() + off, amt);
    return SQLITE_OK;
  }
  memcpy(buf, d.data() + off, avail);
  memset((char*)buf + avail, 0, amt - avail);
  return SQLITE_IOERR_SHORT_READ;
}

int xWrite(sqlite3_file* f, const void* buf, int amt, sqlite3_int64 off) {
  SimFile* p = reinterpret_cast<SimFile*>(f);
  if (int rc = pre("write", p->path.c_str(), off, amt)) return rc;
  g_stats.writes++;
  std::string& d = p->ino->data;
  if (d.size() < (size_t)off + amt) d.resize((size_t)off + amt);
  memcpy(&d[(size_t)off], buf, amt);
  simfs::fs().touched(p->ino);
  return SQLITE_OK;
}

int xTruncate(sqlite3_file* f, sqlite3_int64 size) {
  SimFile* p = reinterpret_cast<SimFile*>(f);
  if (int rc = pre("truncate", p->path.c_str(), size, 0)) return rc;
  p->ino->data.resize((size_t)size);
  simfs::fs().touched(p->ino);
  return SQLITE_OK;
}

int xSync(sqlite3_file* f, int) {
  SimFile* p = reinterpret_cast<SimFile*>(f);
  if (int rc = pre("sync", p->path.c_str())) return rc;
  g_stats.syncs++;
  return SQLITE_OK;
}

int xFileSize(sqlite3_file* f, sqlite3_int64* out) {
  SimFile* p = reinterpret_cast<SimFile*>(f);
  if (int rc = pre("size", p->path.c_str())) return rc;
  *out = (sqlite3_int64)p->ino->data.size();
  return SQLITE_OK;
}

int xLock(sqlite3_file* f, int level) {
  SimFile* p = reinterpret_cast<SimFile*>(f);
  if (int rc = pre("lock", p->path.c_str(), 0, level)) return rc;
  g_stats.locks++;
  if (p->lock >= level) return SQLITE_OK;
  auto& holders = g_locks[p->ino.get()];
  int othersMax = SQLITE_LOCK_NONE;
  int othersShared = 0;
  for (auto& h : holders) {
    if (h.first == p) continue;
    if (h.second > othersMax) othersMax = h.second;
    if (h.second >= SQLITE_LOCK_SHARED) othersShared++;
  }
  if (level == SQLITE_LOCK_SHARED) {
    if (othersMax >= SQLITE_LOCK_PENDING) {
      g_stats.busy++;
      return SQLITE_BUSY;
    }
    holders[p] = p->lock = SQLITE_LOCK_SHARED;
    return SQLITE_OK;
  }
  if (level == SQLITE_LOCK_RESERVED) {
    if (othersMax >= SQLITE_LOCK_RESERVED) {
      g_stats.busy++;
      return SQLITE_BUSY;
    }
    holders[p] = p->lock = SQLITE_LOCK_RESERVED;
    return SQLITE_OK;
  }
  // EXCLUSIVE (PENDING is never requested directly)
  if (othersMax >= SQLITE_LOCK_RESERVED) {
    g_stats.busy++;
    return SQLITE_BUSY;
  }
  if (othersShared > 0) {
    holders[p] = p->lock = SQLITE_LOCK_PENDING;
    g_stats.busy++;
    return SQLITE_BUSY;
  }
  holders[p] = p->lock = SQLITE_LOCK_EXCLUSIVE;
  return SQLITE_OK;
}

int xUnlock(sqlite3_file* f, int level) {
  SimFile* p = reinterpret_cast<SimFile*>(f);
  pre("unlock", p->path.c_str(), 0, level);
  if (p->lock <= level) return SQLITE_OK;
  p->lock = level;
  auto it = g_locks.find(p->ino.get());
  if (it != g_locks.end()) {
    if (level == SQLITE_LOCK_NONE) {
      it->second.erase(p);
      if (it->second.empty()) g_locks.erase(it);
    } else {
      it->second[p] = level;
    }
  }
  return SQLITE_OK;
}

int xCheckReservedLock(sqlite3_file* f, int* out) {
  SimFile* p = reinterpret_cast<SimFile*>(f);
  if (int rc = pre("checkres", p->path.c_str())) return rc;
  *out = 0;
  auto it = g_locks.find(p->ino.get());
  if (it != g_locks.end())
    for (auto& h : it->second)
      if (h.second >= SQLITE_LOCK_RESERVED) *out = 1;
  return SQLITE_OK;
}

int xFileControl(sqlite3_file*, int, void*) { return SQLITE_NOTFOUND; }
int xSectorSize(sqlite3_file*) { return 512; }
int xDeviceCharacteristics(sqlite3_file*) { return 0; }

const sqlite3_io_methods kIo = {
    1, xClose, xRead, xWrite, xTruncate, xSync, xFileSize, xLock, xUnlock, xCheckReservedLock,
    xFileControl, xSectorSize, xDeviceCharacteristics,
    nullptr, nullptr, nullptr, nullptr, nullptr, nullptr};

int vOpen(sqlite3_vfs*, const char* name, sqlite3_file* f, int flags, int* outFlags) {
  f->pMethods = nullptr;
  if (int rc = pre("open", name)) return rc;
  g_stats.opens++;
  simfs::InodeP ino;
  if (name) {
    int rc = simfs::fs().lookup(name, true, &ino);
    if (rc != 0) {
      if (!(flags & SQLITE_OPEN_CREATE)) return SQLITE_CANTOPEN;
      rc = simfs::fs().createFile(name, (flags & SQLITE_OPEN_EXCLUSIVE) != 0, false, &ino);
      if (rc != 0) return SQLITE_CANTOPEN;
    } else if (ino->type != simfs::Inode::File) {
      return SQLITE_CANTOPEN;
    }
  } else {
    ino = std::make_shared<simfs::Inode>();
  }
  SimFile* p = new (f) SimFile();
  p->ino = ino;
  p->path = name ? name : "";
  p->deleteOnClose = (flags & SQLITE_OPEN_DELETEONCLOSE) != 0;
  p->base.pMethods = &kIo;
  g_handles++;
  if (outFlags) *outFlags = flags;
  return SQLITE_OK;
}

int vDelete(sqlite3_vfs*, const char* name, int) {
  if (int rc = pre("delete", name)) return rc;
  g_stats.deletes++;
  int rc = simfs::fs().unlink(name);
  if (rc == ENOENT) return SQLITE_IOERR_DELETE_NOENT;
  return rc ? SQLITE_IOERR_DELETE : SQLITE_OK;
}

int vAccess(sqlite3_vfs*, const char* name, int flags, int* out) {
  if (int rc = pre("access", name)) return rc;
  simfs::InodeP ino;
  int rc = simfs::fs().lookup(name, true, &ino);
  *out = rc == 0;
  return SQLITE_OK;
}

int vFullPathname(sqlite3_vfs*, const char* name, int n, char* out) {
  std::string abs = simfs::fs().absolute(name);
  if ((int)abs.size() + 1 > n) return SQLITE_CANTOPEN;
  memcpy(out, abs.c_str(), abs.size() + 1);
  return SQLITE_OK;
}

int vRandomness(sqlite3_vfs*, int n, char* out) {
  for (int i = 0; i < n; i++) {
    g_rand = g_rand * 6364136223846793005ULL + 1442695040888963407ULL;
    out[i] = (char)(g_rand >> 56);
  }
  return n;
}

int vSleep(sqlite3_vfs*, int us) {
  g_stats.sleeps++;
  g_stats.sleep_us += us;
  if (sim::active()) sim::sleep_ns((uint64_t)us * 1000ULL);
  else sim::advance_ns((uint64_t)us * 1000ULL);
  return us;
}

int vCurrentTimeInt64(sqlite3_vfs*, sqlite3_int64* out) {
  // julian day in ms; unix epoch = 2440587.5 days
  *out = (sqlite3_int64)(210866760000000LL + (sqlite3_int64)(sim::now_ns() / 1000000ULL));
  return SQLITE_OK;
}

int vCurrentTime(sqlite3_vfs* v, double* out) {
  sqlite3_int64 t;
  vCurrentTimeInt64(v, &t);
  *out = t / 86400000.0;
  return SQLITE_OK;
}

int vGetLastError(sqlite3_vfs*, int, char*) { return 0; }

sqlite3_vfs g_vfs = {
    2, (int)sizeof(SimFile), 1024, nullptr, "simvfs", nullptr,
    vOpen, vDelete, vAccess, vFullPathname,
    nullptr, nullptr, nullptr, nullptr,
    vRandomness, vSleep, vCurrentTime, vGetLastError, vCurrentTimeInt64,
    nullptr, nullptr, nullptr};

bool g_installed = false;

} // namespace

void install() {
  if (g_installed) return;
  sqlite3_vfs_register(&g_vfs, 1);
  g_installed = true;
}

void set_hook(Hook h) { g_hook = std::move(h); }
void reset_counter() { g_counter = 0; }
uint64_t call_count() { return g_counter; }
void crash_all_handles() { g_locks.clear(); }
int open_handles() { return g_handles; }
Stats stats() { return g_stats; }
void reset_stats() { g_stats = Stats(); }
void set_random_seed(uint64_t s) { g_rand = s * 2862933555777941757ULL + 3037000493ULL; }

} // namespace simvfs
