// simvfs — a sqlite3_vfs over simfs, registered as the default VFS (DESIGN 2.4)
#pragma once
#include <cstdint>
#include <functional>
#include <string>

namespace simvfs {

// Registers the VFS as SQLite's default.  Call once, before llbuild opens a database.
void install();

struct Call {
  const char* op;        // "open","delete","access","read","write","truncate","sync","size","lock","unlock","checkres","close"
  const char* path;      // file the call concerns ("" for anonymous temp files)
  uint64_t index;        // 0-based index of this call since reset_counter()
  int64_t offset = 0;    // read/write/truncate
  int amount = 0;        // read/write; lock level for lock/unlock
};

// Hook invoked before every VFS call.  Return 0 to proceed, or an SQLite error
// code to make the call fail without touching the file system.
typedef std::function<int(const Call&)> Hook;
void set_hook(Hook h);
void reset_counter();
uint64_t call_count();

// drop every lock held through handles of the "crashed" process and forget its handles
void crash_all_handles();
// number of handles currently open
int open_handles();

struct Stats {
  uint64_t calls = 0, reads = 0, writes = 0, syncs = 0, locks = 0, busy = 0, sleeps = 0, sleep_us = 0,
           injected = 0, opens = 0, deletes = 0;
};
Stats stats();
void reset_stats();

// seed for xRandomness
void set_random_seed(uint64_t s);

} // namespace simvfs
