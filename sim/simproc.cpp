// simproc — simulated pipes, descriptors and child processes behind the libc entry points that
// Subprocess.cpp, PlatformUtility.cpp and the vendored llvm Support use (DESIGN 2.5, appendix B).
#include "sim/detsched.h"
#include "sim/simos.h"

#include <cerrno>
#include <csignal>
#include <cstdarg>
#include <cstring>
#include <fcntl.h>
#include <poll.h>
#include <set>
#include <spawn.h>
#include <sys/resource.h>
#include <sys/stat.h>
#include <sys/wait.h>
#include <unistd.h>

extern "C" {
int __real_pipe(int[2]);
int __real_poll(struct pollfd*, nfds_t, int);
ssize_t __real_read(int, void*, size_t);
ssize_t __real_write(int, const void*, size_t);
ssize_t __real_pread(int, void*, size_t, off_t);
off_t __real_lseek(int, off_t, int);
int __real_close(int);
int __real_fcntl(int, int, ...);
int __real_fstat(int, struct stat*);
int __real_ftruncate(int, off_t);
int __real_isatty(int);
pid_t __real_wait4(pid_t, int*, int, struct rusage*);
pid_t __real_waitpid(pid_t, int*, int);
int __real_kill(pid_t, int);
int __real_posix_spawn(pid_t*, const char*, const posix_spawn_file_actions_t*, const posix_spawnattr_t*, char* const[], char* const[]);
int __real_posix_spawn_file_actions_init(posix_spawn_file_actions_t*);
int __real_posix_spawn_file_actions_destroy(posix_spawn_file_actions_t*);
int __real_posix_spawn_file_actions_adddup2(posix_spawn_file_actions_t*, int, int);
int __real_posix_spawn_file_actions_addopen(posix_spawn_file_actions_t*, int, const char*, int, mode_t);
int __real_posix_spawn_file_actions_addclose(posix_spawn_file_actions_t*, int);
int __real_posix_spawn_file_actions_addchdir_np(posix_spawn_file_actions_t*, const char*);
int __real_getrlimit(int, struct rlimit*);
}

namespace simos {

struct Proc {
  int pid = 0;
  FdTable fds;
  std::vector<std::string> argv;
  std::map<std::string, std::string> env;
  std::string cwd;
  Program program;
  bool exited = false;
  int status = 0;
  std::set<int> pending;
  bool ignoreInt = false;
  int diedBy = 0;
};

namespace {

struct Action {
  int type; // 0 dup2, 1 open, 2 close, 3 chdir
  int fd = -1, newfd = -1;
  std::string path;
  int flags = 0;
};

FdTable g_fds;
int g_nextFd = kFirstFd;
int g_nextPid = kFirstPid;
std::map<int, std::unique_ptr<Proc>> g_procs;
std::map<std::string, Program> g_programs;
std::map<const void*, std::vector<Action>> g_actions;
Hooks g_hooks;
Stats g_stats;

void setErr(int e) { errno = e; }

int signalToDie(Proc* p) {
  // returns the signal that terminates the process now, or 0
  if (p->pending.count(SIGKILL)) return SIGKILL;
  for (auto it = p->pending.begin(); it != p->pending.end();) {
    int s = *it;
    if (s == SIGINT && p->ignoreInt) {
      it = p->pending.erase(it);
      continue;
    }
    return s;
  }
  return 0;
}

void closeAll(Proc* p) {
  for (auto& e : p->fds) release(e.second);
  p->fds.clear();
}

void runChild(Proc* p) {
  ProcCtx ctx;
  ctx.proc = p;
  ctx.pid = p->pid;
  ctx.argv = p->argv;
  ctx.env = p->env;
  ctx.cwd = p->cwd;
  int code = 0;
  if (ctx.alive()) code = p->program(ctx);
  if (!p->diedBy) {
    // a signal that arrived while the program was finishing is too late
    p->status = (code & 0xff) << 8;
  } else {
    p->status = p->diedBy & 0x7f;
    g_stats.killedBySignal++;
  }
  closeAll(p);
  p->exited = true;
  g_stats.exits++;
  if (g_hooks.onExit) g_hooks.onExit(p->pid, p->status);
}

} // namespace

FdTable& fds() { return g_fds; }
Hooks& hooks() { return g_hooks; }
Stats stats() { return g_stats; }

void retain(const Fd& f) {
  if (f.kind == Fd::PipeR) f.pipe->readers++;
  else if (f.kind == Fd::PipeW) f.pipe->writers++;
}
void release(const Fd& f) {
  if (f.kind == Fd::PipeR) f.pipe->readers--;
  else if (f.kind == Fd::PipeW) f.pipe->writers--;
}
int allocFd(const Fd& f) {
  int n = g_nextFd++;
  g_fds[n] = f;
  retain(f);
  return n;
}

void registerProgram(const std::string& path, Program p) { g_programs[path] = std::move(p); }

void reset() {
  g_fds.clear();
  g_nextFd = kFirstFd;
  g_nextPid = kFirstPid;
  g_procs.clear();
  g_programs.clear();
  g_actions.clear();
  g_hooks = Hooks();
  g_stats = Stats();
}

int liveProcesses() {
  int n = 0;
  for (auto& e : g_procs)
    if (!e.second->exited) n++;
  return n;
}
int unreapedProcesses() { return (int)g_procs.size(); }

// ---- ProcCtx
bool ProcCtx::alive() {
  sim::yield("child");
  if (proc->diedBy) return false;
  int s = signalToDie(proc);
  if (s) {
    proc->diedBy = s;
    return false;
  }
  return true;
}

void ProcCtx::ignoreSigint(bool on) { proc->ignoreInt = on; }

void ProcCtx::dieBySignal(int sig) { proc->diedBy = sig; }

bool ProcCtx::hasFd(int fd) const { return proc->fds.count(fd) > 0; }

void ProcCtx::closeFd(int fd) {
  auto it = proc->fds.find(fd);
  if (it == proc->fds.end()) return;
  release(it->second);
  proc->fds.erase(it);
}

bool ProcCtx::sleepUs(uint64_t us) {
  if (!alive()) return false;
  Proc* p = proc;
  uint64_t deadline = sim::now_ns() + us * 1000ULL;
  sim::block_until([p]() { return signalToDie(p) != 0; }, deadline, "child-sleep");
  return alive();
}

bool ProcCtx::write(int fd, const std::string& data, size_t chunk) {
  size_t off = 0;
  Proc* p = proc;
  lastAccepted = 0;
  while (off < data.size()) {
    lastAccepted = off;
    if (!alive()) return false;
    auto it = p->fds.find(fd);
    if (it == p->fds.end()) return true; // EBADF: ignored by the simulated program
    Fd& f = it->second;
    if (f.kind == Fd::Null) return true;
    if (f.kind == Fd::File) {
      auto& d = f.file->ino->data;
      if (f.file->flags & O_APPEND) f.file->off = d.size();
      if (d.size() < f.file->off + (data.size() - off)) d.resize(f.file->off + (data.size() - off));
      memcpy(&d[f.file->off], data.data() + off, data.size() - off);
      f.file->off += data.size() - off;
      simfs::fs().touched(f.file->ino);
      return true;
    }
    if (f.kind != Fd::PipeW) return true;
    std::shared_ptr<Pipe> pipe = f.pipe;
    if (pipe->readers == 0) {
      p->diedBy = SIGPIPE;
      return false;
    }
    size_t space = pipe->cap > pipe->buf.size() ? pipe->cap - pipe->buf.size() : 0;
    if (space == 0) {
      g_stats.pipeFullBlocks++;
      sim::block_until([pipe, p]() { return pipe->buf.size() < pipe->cap || pipe->readers == 0 || signalToDie(p) != 0; }, 0, "pipe-full");
      continue;
    }
    size_t n = std::min(space, data.size() - off);
    if (chunk && n > chunk) n = chunk;
    pipe->buf.append(data, off, n);
    g_stats.bytesPiped += n;
    off += n;
    lastAccepted = off;
  }
  lastAccepted = data.size();
  return true;
}

} // namespace simos

using namespace simos;

namespace {
bool simulated() { return sim::active(); }

Fd* lookup(int fd) {
  auto it = g_fds.find(fd);
  return it == g_fds.end() ? nullptr : &it->second;
}
} // namespace

extern "C" {

int __wrap_pipe(int out[2]) {
  if (!simulated()) return __real_pipe(out);
  sim::yield("pipe");
  if (g_hooks.pipeFault) {
    int e = g_hooks.pipeFault();
    if (e) {
      g_stats.pipeFailures++;
      setErr(e);
      return -1;
    }
  }
  auto p = std::make_shared<Pipe>();
  Fd r, w;
  r.kind = Fd::PipeR;
  r.pipe = p;
  w.kind = Fd::PipeW;
  w.pipe = p;
  out[0] = allocFd(r);
  out[1] = allocFd(w);
  g_stats.pipes++;
  return 0;
}

int __wrap_poll(struct pollfd* pf, nfds_t n, int timeout) {
  bool anySim = false;
  for (nfds_t i = 0; i < n; i++)
    if (isSimFd(pf[i].fd)) anySim = true;
  if (!simulated() || !anySim) return __real_poll(pf, n, timeout);
  g_stats.polls++;
  if (g_hooks.eintrFault && g_hooks.eintrFault("poll")) {
    g_stats.eintr++;
    sim::yield("poll-eintr");
    setErr(EINTR);
    return -1;
  }
  auto compute = [pf, n]() {
    int ready = 0;
    for (nfds_t i = 0; i < n; i++) {
      pf[i].revents = 0;
      if (pf[i].fd < 0) continue;
      Fd* f = lookup(pf[i].fd);
      if (!f) {
        if (isSimFd(pf[i].fd)) pf[i].revents = POLLNVAL;
      } else if (f->kind == Fd::PipeR) {
        if (!f->pipe->buf.empty() && (pf[i].events & POLLIN)) pf[i].revents |= POLLIN;
        if (f->pipe->writers == 0) pf[i].revents |= POLLHUP; // reported regardless of events, as on Linux
      } else if (f->kind == Fd::PipeW) {
        if (f->pipe->readers == 0) pf[i].revents |= POLLERR;
        else if ((pf[i].events & POLLOUT) && f->pipe->buf.size() < f->pipe->cap) pf[i].revents |= POLLOUT;
      } else {
        pf[i].revents = pf[i].events & (POLLIN | POLLOUT);
      }
      if (pf[i].revents) ready++;
    }
    return ready;
  };
  uint64_t deadline = timeout < 0 ? 0 : sim::now_ns() + (uint64_t)timeout * 1000000ULL;
  if (timeout == 0) {
    sim::yield("poll");
    return compute();
  }
  sim::block_until([&compute]() { return compute() > 0; }, deadline, "poll");
  int ready = compute();
  // a caller that keeps polling a hung-up descriptor it no longer listens to spins; let simulated time pass
  bool onlyIgnoredHup = ready > 0;
  for (nfds_t i = 0; i < n; i++)
    if (pf[i].revents && !(pf[i].revents == POLLHUP && pf[i].events == 0)) onlyIgnoredHup = false;
  if (onlyIgnoredHup) sim::sleep_ns(20000000);
  return ready;
}

ssize_t __wrap_read(int fd, void* buf, size_t len) {
  if (!isSimFd(fd)) return __real_read(fd, buf, len);
  Fd* f = lookup(fd);
  if (!f) {
    setErr(EBADF);
    return -1;
  }
  if (f->kind == Fd::Null) return 0;
  if (f->kind == Fd::File) {
    if (f->file->ino->type == simfs::Inode::Dir) {
      setErr(EISDIR);
      return -1;
    }
    const std::string& d = f->file->ino->data;
    if (f->file->off >= d.size()) return 0;
    size_t n = std::min(len, (size_t)(d.size() - f->file->off));
    memcpy(buf, d.data() + f->file->off, n);
    f->file->off += n;
    return (ssize_t)n;
  }
  if (f->kind != Fd::PipeR) {
    setErr(EBADF);
    return -1;
  }
  std::shared_ptr<Pipe> p = f->pipe;
  if (simulated()) sim::block_until([p]() { return !p->buf.empty() || p->writers == 0; }, 0, "pipe-read");
  if (p->buf.empty()) return 0;
  size_t n = std::min(len, p->buf.size());
  if (g_hooks.readChunk) {
    size_t c = g_hooks.readChunk();
    if (c && n > c) n = c;
  }
  memcpy(buf, p->buf.data(), n);
  p->buf.erase(0, n);
  return (ssize_t)n;
}

ssize_t __wrap_pread(int fd, void* buf, size_t len, off_t off) {
  if (!isSimFd(fd)) return __real_pread(fd, buf, len, off);
  Fd* f = lookup(fd);
  if (!f || f->kind != Fd::File) {
    setErr(EBADF);
    return -1;
  }
  const std::string& d = f->file->ino->data;
  if ((size_t)off >= d.size()) return 0;
  size_t n = std::min(len, d.size() - (size_t)off);
  memcpy(buf, d.data() + off, n);
  return (ssize_t)n;
}

off_t __wrap_lseek(int fd, off_t off, int whence) {
  if (!isSimFd(fd)) return __real_lseek(fd, off, whence);
  Fd* f = lookup(fd);
  if (!f || f->kind != Fd::File) {
    setErr(ESPIPE);
    return -1;
  }
  uint64_t base = whence == SEEK_SET ? 0 : whence == SEEK_CUR ? f->file->off : f->file->ino->data.size();
  f->file->off = base + off;
  return (off_t)f->file->off;
}

ssize_t __wrap_write(int fd, const void* buf, size_t len) {
  if (!isSimFd(fd)) return __real_write(fd, buf, len);
  Fd* f = lookup(fd);
  if (!f) {
    setErr(EBADF);
    return -1;
  }
  if (f->kind == Fd::Null) return (ssize_t)len;
  if (f->kind == Fd::File) {
    auto& d = f->file->ino->data;
    if (f->file->flags & O_APPEND) f->file->off = d.size();
    if (d.size() < f->file->off + len) d.resize(f->file->off + len);
    memcpy(&d[f->file->off], buf, len);
    f->file->off += len;
    simfs::fs().touched(f->file->ino);
    return (ssize_t)len;
  }
  if (f->kind != Fd::PipeW) {
    setErr(EBADF);
    return -1;
  }
  std::shared_ptr<Pipe> p = f->pipe;
  if (p->readers == 0) {
    setErr(EPIPE);
    return -1;
  }
  if (simulated() && p->buf.size() >= p->cap)
    sim::block_until([p]() { return p->buf.size() < p->cap || p->readers == 0; }, 0, "pipe-write");
  size_t n = std::min(len, p->cap > p->buf.size() ? p->cap - p->buf.size() : len);
  p->buf.append((const char*)buf, n);
  return (ssize_t)n;
}

int __wrap_close(int fd) {
  if (!isSimFd(fd)) return __real_close(fd);
  auto it = g_fds.find(fd);
  if (it == g_fds.end()) {
    setErr(EBADF);
    return -1;
  }
  release(it->second);
  g_fds.erase(it);
  if (simulated()) sim::yield("close");
  return 0;
}

int __wrap_fcntl(int fd, int cmd, ...) {
  va_list ap;
  va_start(ap, cmd);
  long arg = va_arg(ap, long);
  va_end(ap);
  if (!isSimFd(fd)) return __real_fcntl(fd, cmd, arg);
  Fd* f = lookup(fd);
  if (!f) {
    setErr(EBADF);
    return -1;
  }
  switch (cmd) {
  case F_GETFD: return f->cloexec ? FD_CLOEXEC : 0;
  case F_SETFD: f->cloexec = (arg & FD_CLOEXEC) != 0; return 0;
  case F_GETFL: return f->kind == Fd::File ? f->file->flags : (f->kind == Fd::PipeW ? O_WRONLY : O_RDONLY);
  default: return 0;
  }
}

int __wrap_isatty(int fd) {
  if (!isSimFd(fd)) return __real_isatty(fd);
  setErr(ENOTTY);
  return 0;
}

int __wrap_ftruncate(int fd, off_t len) {
  if (!isSimFd(fd)) return __real_ftruncate(fd, len);
  Fd* f = lookup(fd);
  if (!f || f->kind != Fd::File) {
    setErr(EBADF);
    return -1;
  }
  simfs::fs().truncate(f->file->ino, (uint64_t)len);
  return 0;
}

int __wrap_getrlimit(int res, struct rlimit* rl) {
  int rc = __real_getrlimit(res, rl);
  if (rc == 0 && res == RLIMIT_NOFILE && simulated() && g_hooks.openFileLimit) {
    rl->rlim_cur = g_hooks.openFileLimit;
    if (rl->rlim_max < rl->rlim_cur) rl->rlim_max = rl->rlim_cur;
  }
  return rc;
}

// ---- file actions side table (glibc's private layout is never parsed)
int __wrap_posix_spawn_file_actions_init(posix_spawn_file_actions_t* fa) {
  g_actions[fa].clear();
  return __real_posix_spawn_file_actions_init(fa);
}
int __wrap_posix_spawn_file_actions_destroy(posix_spawn_file_actions_t* fa) {
  g_actions.erase(fa);
  return __real_posix_spawn_file_actions_destroy(fa);
}
int __wrap_posix_spawn_file_actions_adddup2(posix_spawn_file_actions_t* fa, int fd, int newfd) {
  Action a;
  a.type = 0;
  a.fd = fd;
  a.newfd = newfd;
  g_actions[fa].push_back(a);
  if (isSimFd(fd) || isSimFd(newfd)) return 0;
  return __real_posix_spawn_file_actions_adddup2(fa, fd, newfd);
}
int __wrap_posix_spawn_file_actions_addopen(posix_spawn_file_actions_t* fa, int fd, const char* path, int flags, mode_t mode) {
  Action a;
  a.type = 1;
  a.fd = fd;
  a.path = path;
  a.flags = flags;
  g_actions[fa].push_back(a);
  return __real_posix_spawn_file_actions_addopen(fa, fd, path, flags, mode);
}
int __wrap_posix_spawn_file_actions_addclose(posix_spawn_file_actions_t* fa, int fd) {
  Action a;
  a.type = 2;
  a.fd = fd;
  g_actions[fa].push_back(a);
  if (isSimFd(fd)) return 0;
  return __real_posix_spawn_file_actions_addclose(fa, fd);
}
int __wrap_posix_spawn_file_actions_addchdir_np(posix_spawn_file_actions_t* fa, const char* path) {
  Action a;
  a.type = 3;
  a.path = path;
  g_actions[fa].push_back(a);
  return 0;
}

int __wrap_posix_spawn(pid_t* pidOut, const char* path, const posix_spawn_file_actions_t* fa, const posix_spawnattr_t* attr,
                       char* const argv[], char* const envp[]) {
  if (!simulated()) return __real_posix_spawn(pidOut, path, fa, attr, argv, envp);
  sim::yield("posix_spawn");
  g_stats.spawns++;
  std::vector<std::string> args;
  for (int i = 0; argv && argv[i]; i++) args.push_back(argv[i]);
  if (g_hooks.spawnFault) {
    int e = g_hooks.spawnFault(path, args);
    if (e) {
      g_stats.spawnFailures++;
      return e;
    }
  }
  auto pit = g_programs.find(path);
  if (pit == g_programs.end()) {
    g_stats.spawnFailures++;
    return ENOENT;
  }
  std::unique_ptr<Proc> p(new Proc());
  p->pid = g_nextPid++;
  p->argv = args;
  p->program = pit->second;
  p->cwd = simfs::fs().cwd;
  for (int i = 0; envp && envp[i]; i++) {
    const char* eq = strchr(envp[i], '=');
    if (!eq) continue;
    p->env[std::string(envp[i], eq - envp[i])] = eq + 1;
  }
  // descriptors without close-on-exec are inherited under the same number
  for (auto& e : g_fds)
    if (!e.second.cloexec) {
      p->fds[e.first] = e.second;
      retain(e.second);
    }
  if (fa) {
    auto ait = g_actions.find(fa);
    if (ait != g_actions.end())
      for (auto& a : ait->second) {
        if (a.type == 0) {
          auto src = p->fds.find(a.fd);
          if (src == p->fds.end()) continue; // e.g. dup2(0,0) of a real descriptor: nothing to model
          if (a.fd == a.newfd) continue;
          Fd copy = src->second;
          auto old = p->fds.find(a.newfd);
          if (old != p->fds.end()) release(old->second);
          copy.cloexec = false;
          p->fds[a.newfd] = copy;
          retain(copy);
        } else if (a.type == 1) {
          Fd f;
          if (a.path == "/dev/null") {
            f.kind = Fd::Null;
          } else {
            simfs::InodeP ino;
            int rc = (a.flags & O_CREAT) ? simfs::fs().createFile(a.path, false, (a.flags & O_TRUNC) != 0, &ino) : simfs::fs().lookup(a.path, true, &ino);
            if (rc) {
              closeAll(p.get());
              g_stats.spawnFailures++;
              return rc;
            }
            f.kind = Fd::File;
            f.file = std::make_shared<OpenFile>();
            f.file->ino = ino;
            f.file->flags = a.flags;
            f.file->path = a.path;
          }
          auto old = p->fds.find(a.fd);
          if (old != p->fds.end()) release(old->second);
          p->fds[a.fd] = f;
        } else if (a.type == 2) {
          auto old = p->fds.find(a.fd);
          if (old != p->fds.end()) {
            release(old->second);
            p->fds.erase(old);
          }
        } else if (a.type == 3) {
          std::string canon;
          simfs::InodeP ino;
          int rc = simfs::fs().lookup(a.path, true, &ino, &canon);
          if (rc || ino->type != simfs::Inode::Dir) {
            closeAll(p.get());
            g_stats.spawnFailures++;
            return rc ? rc : ENOTDIR;
          }
          p->cwd = canon;
        }
      }
  }
  Proc* raw = p.get();
  int pid = p->pid;
  g_procs[pid] = std::move(p);
  if (pidOut) *pidOut = pid;
  if (g_hooks.onSpawn) g_hooks.onSpawn(pid, raw->argv, raw->env);
  std::string role = "child-" + std::to_string(pid);
  sim::spawn(role.c_str(), [raw]() { runChild(raw); });
  return 0;
}

int __wrap_kill(pid_t pid, int sig) {
  bool ours = pid >= kFirstPid || -pid >= kFirstPid;
  if (!ours) {
    if (simulated() && (pid <= 0)) {
      // never signal real process groups from inside a simulation
      setErr(ESRCH);
      return -1;
    }
    return __real_kill(pid, sig);
  }
  if (simulated()) sim::yield("kill");
  int target = pid < 0 ? -pid : pid;
  auto it = g_procs.find(target);
  if (it == g_procs.end()) {
    setErr(ESRCH);
    return -1;
  }
  g_stats.kills++;
  Proc* p = it->second.get();
  bool delivered = !p->exited;
  if (delivered && sig != 0) p->pending.insert(sig);
  if (g_hooks.onSignal) g_hooks.onSignal(target, sig, delivered);
  return 0;
}

pid_t __wrap_wait4(pid_t pid, int* status, int options, struct rusage* ru) {
  if (pid < kFirstPid) {
    if (simulated()) {
      setErr(ECHILD);
      return -1;
    }
    return __real_wait4(pid, status, options, ru);
  }
  auto it = g_procs.find(pid);
  if (it == g_procs.end()) {
    setErr(ECHILD);
    return -1;
  }
  if (g_hooks.eintrFault && g_hooks.eintrFault("wait4")) {
    g_stats.eintr++;
    sim::yield("wait4-eintr");
    setErr(EINTR);
    return -1;
  }
  Proc* p = it->second.get();
  if (options & WNOHANG) {
    sim::yield("wait4");
    if (!p->exited) return 0;
  } else {
    sim::block_until([p]() { return p->exited; }, 0, "wait4");
  }
  if (status) *status = p->status;
  if (ru) memset(ru, 0, sizeof(*ru));
  g_stats.reaps++;
  if (g_hooks.onReap) g_hooks.onReap(pid);
  g_procs.erase(pid);
  return pid;
}

pid_t __wrap_waitpid(pid_t pid, int* status, int options) {
  if (pid < kFirstPid && !simulated()) return __real_waitpid(pid, status, options);
  return __wrap_wait4(pid, status, options, nullptr);
}

} // extern "C"
