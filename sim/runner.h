// runner — worker loop, fork-isolated execution, shrinking and replay (DESIGN 2.1, 2.7, 3.3)
#pragma once
#include "sim/util.h"

#include <cstdint>
#include <map>
#include <string>
#include <vector>

namespace runner {

struct RunResult {
  std::string status = "ok";   // ok | viol | hang | livelock
  std::string clause;          // e.g. C01.1
  std::string detail;
  uint64_t evhash = 0;         // hash of the semantic event log
  uint64_t ihash = 0;          // interleaving hash
  uint64_t shape = 0;          // plan-shape hash (for distinct counting)
  uint64_t steps = 0;
  uint64_t simtime_us = 0;
  bool nontrivial = false;
  std::map<std::string, uint64_t> counters;   // fault kinds fired, probes
  std::vector<std::string> incidental;        // other properties' clauses that fired (never change the verdict)
  std::vector<uint32_t> decisions;            // scheduler decision vector of the (last) simulated section
  std::string sample;                         // short human-readable rendering of the case
  util::Json patch;                           // top-level plan keys to overwrite in the candidate (narrows a multi-part run to the failing part)

  util::Json toJson() const;
  static RunResult fromJson(const util::Json& j);
  bool failed() const { return status != "ok"; }
};

struct GenOptions {
  std::string property;
  std::string tier = "quick";
  std::vector<std::string> exclude;   // generator features switched off (known findings)
  std::vector<std::string> force;     // generator features forced on
  bool has(const std::vector<std::string>& v, const std::string& s) const {
    for (auto& e : v) if (e == s) return true;
    return false;
  }
  bool excluded(const std::string& s) const { return has(exclude, s); }
  bool forced(const std::string& s) const { return has(force, s); }
};

class World {
public:
  virtual ~World() {}
  virtual util::Json generate(uint64_t seed, const GenOptions& opt) = 0;
  virtual RunResult execute(const util::Json& plan) = 0;
  // called once per process before the first run (outside simulation)
  virtual void warmup() {}
};

World* makeWorld(const std::string& property);

// A world reports a run that cannot return (hang/livelock detected by detsched)
// through this; it does not return.
[[noreturn]] void fatal_result(const RunResult& r);

// While an object of this type lives, fds 1 and 2 go to /dev/null (llbuild's own console output);
// sanitizer reports and fatal results restore them first.
struct Silence {
  Silence();
  ~Silence();
};
void unsilence();

int main_entry(int argc, char** argv);

} // namespace runner
