#include "sim/runner.h"
#include "sim/detsched.h"

#include <algorithm>
#include <cerrno>
#include <csignal>
#include <cstring>
#include <ctime>
#include <fcntl.h>
#include <functional>
#include <poll.h>
#include <sys/personality.h>
#include <sys/stat.h>
#include <sys/wait.h>
#include <sys/prctl.h>
#include <unistd.h>
#include <unordered_set>

using util::Json;

// classify sanitizer failures by exit code; never run LSan (workers are killed deliberately)
extern "C" __attribute__((used)) const char* __asan_default_options() {
  return "exitcode=77:detect_leaks=0:abort_on_error=0:handle_abort=1:allocator_may_return_null=1:detect_stack_use_after_return=0";
}
extern "C" __attribute__((used)) const char* __ubsan_default_options() {
  return "print_stacktrace=1:halt_on_error=1:exitcode=77";
}
extern "C" __attribute__((used)) const char* __tsan_default_options() {
  // symbolize=0: the runtime would start llvm-symbolizer with pipe()/fork() from inside the report, i.e. through the
  // simulated pipe layer and the scheduler, whose allocations then go through the runtime's internal allocator and trip its
  // checks (seen as a replay spinning for ever).  Addresses are symbolised offline (llvm-symbolizer-14 -e .build/tsan/vsim).
  return "exitcode=77:halt_on_error=1:report_signal_unsafe=0:history_size=2:second_deadlock_stack=1:ignore_interceptors_accesses=1:symbolize=0";
}

namespace runner {

Json RunResult::toJson() const {
  Json j = Json::obj();
  j.set("status", status).set("clause", clause).set("detail", detail);
  j.set("evhash", util::hex(std::string((const char*)&evhash, 8)));
  j.set("ihash", util::hex(std::string((const char*)&ihash, 8)));
  j.set("shape", util::hex(std::string((const char*)&shape, 8)));
  j.set("steps", (int64_t)steps).set("simtime_us", (int64_t)simtime_us).setb("nontrivial", nontrivial);
  Json c = Json::obj();
  for (auto& e : counters) c.set(e.first, (int64_t)e.second);
  j.set("counters", c);
  Json inc = Json::arr();
  for (auto& s : incidental) inc.push(Json::str(s));
  j.set("incidental", inc);
  Json d = Json::arr();
  for (auto v : decisions) d.push(Json::num(v));
  j.set("decisions", d);
  j.set("sample", sample);
  if (patch.kind == Json::Obj) j.set("patch", patch);
  return j;
}

static uint64_t unhex64(const std::string& s) {
  std::string b = util::unhex(s);
  uint64_t v = 0;
  if (b.size() == 8) memcpy(&v, b.data(), 8);
  return v;
}

RunResult RunResult::fromJson(const Json& j) {
  RunResult r;
  r.status = j.gets("status", "ok");
  r.clause = j.gets("clause");
  r.detail = j.gets("detail");
  r.evhash = unhex64(j.gets("evhash"));
  r.ihash = unhex64(j.gets("ihash"));
  r.shape = unhex64(j.gets("shape"));
  r.steps = (uint64_t)j.getn("steps");
  r.simtime_us = (uint64_t)j.getn("simtime_us");
  r.nontrivial = j.getb("nontrivial");
  if (auto* c = j.find("counters"))
    for (auto& e : c->o) r.counters[e.first] = (uint64_t)e.second.n;
  for (auto& e : j.geta("incidental")) r.incidental.push_back(e.s);
  for (auto& e : j.geta("decisions")) r.decisions.push_back((uint32_t)e.n);
  r.sample = j.gets("sample");
  if (auto* p = j.find("patch")) r.patch = *p;
  return r;
}

namespace {

// ---- process-wide mode for fatal_result ----
enum Mode { MODE_NONE, MODE_WORKER, MODE_CHILD, MODE_ONESHOT } g_mode = MODE_NONE;
int g_childFd = -1;
std::function<void(const RunResult&)> g_workerFatal;

double nowSec() {
  struct timespec ts;
  clock_gettime(CLOCK_MONOTONIC, &ts);
  return ts.tv_sec + ts.tv_nsec * 1e-9;
}

uint64_t deriveSeed(uint64_t base, const std::string& prop, uint64_t index) {
  util::Hasher h;
  h.u64(base);
  h.str(prop);
  h.u64(index);
  return h.get() >> 1; // keep it positive in JSON
}

void writeAll(int fd, const std::string& s) {
  size_t off = 0;
  while (off < s.size()) {
    ssize_t n = write(fd, s.data() + off, s.size() - off);
    if (n <= 0) {
      if (errno == EINTR) continue;
      break;
    }
    off += (size_t)n;
  }
}

// Execute a plan in a forked child so that hangs, aborts and sanitizer
// reports are contained.
RunResult runIsolated(World* w, const Json& plan, double timeoutSec, const std::string& prop) {
  int fds[2];
  if (pipe(fds) != 0) {
    RunResult r;
    r.status = "harness";
    r.detail = "pipe failed";
    return r;
  }
  char errPath[] = "/tmp/vsim-child-XXXXXX";
  int errFd = mkstemp(errPath);
  fflush(stdout);
  fflush(stderr);
  pid_t pid = fork();
  if (pid == 0) {
    close(fds[0]);
    if (errFd >= 0) {
      dup2(errFd, 2);
      close(errFd);
    }
    prctl(PR_SET_PDEATHSIG, SIGKILL);   // never outlive the parent (the supervisor kills a replay that exceeds its limit)
    g_mode = MODE_CHILD;
    g_childFd = fds[1];
    RunResult r = w->execute(plan);
    writeAll(fds[1], r.toJson().dump());
    _exit(0);
  }
  close(fds[1]);
  std::string out;
  double deadline = nowSec() + timeoutSec;
  bool timedOut = false;
  for (;;) {
    struct pollfd p = {fds[0], POLLIN, 0};
    double left = deadline - nowSec();
    if (left <= 0) {
      timedOut = true;
      break;
    }
    int rc = poll(&p, 1, (int)(left * 1000) + 1);
    if (rc < 0 && errno == EINTR) continue;
    if (rc == 0) {
      timedOut = true;
      break;
    }
    char buf[65536];
    ssize_t n = read(fds[0], buf, sizeof buf);
    if (n > 0) out.append(buf, (size_t)n);
    else if (n == 0) break;
    else if (errno != EINTR) break;
  }
  close(fds[0]);
  int status = 0;
  if (timedOut) kill(pid, SIGKILL);
  waitpid(pid, &status, 0);
  std::string errText;
  if (errFd >= 0) {
    util::readFile(errPath, &errText);
    close(errFd);
    unlink(errPath);
  }
  RunResult r;
  if (timedOut) {
    r.status = "harness";
    r.clause = prop + ".realtime";
    r.detail = "child exceeded real-time limit";
    return r;
  }
  Json j;
  std::string err;
  if (!out.empty() && Json::parse(out, &j, &err)) return RunResult::fromJson(j);
  // died without a result
  r.status = "san";
  r.clause = prop + ".san";
  if (WIFEXITED(status)) r.detail = "child exit code " + std::to_string(WEXITSTATUS(status));
  else if (WIFSIGNALED(status)) r.detail = "child killed by signal " + std::to_string(WTERMSIG(status));
  // keep the first lines of the sanitizer report
  std::string head = errText.substr(0, 2500);
  r.detail += "\n" + head;
  // classify the report kind for clause stability
  const char* kinds[] = {"heap-use-after-free", "heap-buffer-overflow", "stack-buffer-overflow", "stack-use-after-scope",
                         "data race", "SEGV", "runtime error", "double-free", "global-buffer-overflow", "lock-order-inversion"};
  for (auto k : kinds)
    if (errText.find(k) != std::string::npos) {
      r.clause += std::string(":") + k;
      break;
    }
  return r;
}

bool sameFailure(const RunResult& a, const RunResult& b) { return a.status == b.status && a.clause == b.clause; }

// ---- generic structural shrinker over the JSON plan ----
struct Shrinker {
  World* w;
  std::string prop;
  RunResult target;
  Json best;
  int runs = 0;
  int maxRuns = 400;
  double deadline;

  bool budget() { return runs < maxRuns && nowSec() < deadline; }

  bool stillFails(const Json& cand, RunResult* out = nullptr) {
    runs++;
    RunResult r = runIsolated(w, cand, 30.0, prop);
    if (out) *out = r;
    return sameFailure(r, target);
  }

  // collect paths (as index chains) to arrays worth shrinking
  typedef std::vector<std::pair<std::string, int>> Path; // (key, index) steps; key empty => array index
  static Json* resolve(Json& root, const Path& p) {
    Json* cur = &root;
    for (auto& st : p) {
      if (!st.first.empty()) {
        Json* nx = nullptr;
        for (auto& e : cur->o)
          if (e.first == st.first) nx = &e.second;
        if (!nx) return nullptr;
        cur = nx;
      } else {
        if (cur->kind != Json::Arr || st.second >= (int)cur->a.size()) return nullptr;
        cur = &cur->a[st.second];
      }
    }
    return cur;
  }
  static void collect(const Json& j, Path& cur, std::vector<Path>& out, int depth) {
    if (depth > 6) return;
    if (j.kind == Json::Obj) {
      for (auto& e : j.o) {
        if (e.first == "noshrink" || e.first == "expect" || e.first == "found_by") continue;
        cur.push_back({e.first, 0});
        collect(e.second, cur, out, depth + 1);
        cur.pop_back();
      }
    } else if (j.kind == Json::Arr) {
      if (!j.a.empty()) out.push_back(cur);
      for (size_t i = 0; i < j.a.size(); i++) {
        if (j.a[i].kind != Json::Obj && j.a[i].kind != Json::Arr) continue;
        cur.push_back({"", (int)i});
        collect(j.a[i], cur, out, depth + 1);
        cur.pop_back();
      }
    }
  }

  void adopt(const Json& cand, const RunResult& r) {
    best = cand;
    if (r.patch.kind == Json::Obj)
      for (auto& e : r.patch.o) best.set(e.first, e.second);
    // keep the decision vector actually used, so that replay is exact
    if (!r.decisions.empty() || best.find("decisions")) {
      Json d = Json::arr();
      for (auto v : r.decisions) d.push(Json::num(v));
      best.set("decisions", d);
    }
    target.evhash = r.evhash;
  }

  bool ddminArray(const Path& p) {
    bool progress = false;
    Json* arr = resolve(best, p);
    if (!arr || arr->kind != Json::Arr) return false;
    size_t n = arr->a.size();
    bool isDecisions = !p.empty() && p.back().first == "decisions";
    for (size_t chunk = n; chunk >= 1 && budget(); chunk = chunk / 2) {
      size_t i = 0;
      while (budget()) {
        arr = resolve(best, p);
        if (!arr || i >= arr->a.size()) break;
        size_t len = std::min(chunk, arr->a.size() - i);
        Json cand = best;
        Json* carr = resolve(cand, p);
        if (isDecisions && chunk > 1) {
          // for schedules prefer truncation from the end
          size_t keep = arr->a.size() - len;
          if (i != 0) break;
          carr->a.resize(keep);
        } else {
          carr->a.erase(carr->a.begin() + (long)i, carr->a.begin() + (long)(i + len));
        }
        RunResult r;
        if (stillFails(cand, &r)) {
          adopt(cand, r);
          progress = true;
          if (isDecisions) break;
        } else {
          i += len;
        }
      }
      if (chunk == 1) break;
    }
    return progress;
  }

  bool zeroDecisions() {
    bool progress = false;
    Json* d = nullptr;
    for (auto& e : best.o)
      if (e.first == "decisions") d = &e.second;
    if (!d || d->a.empty()) return false;
    size_t n = d->a.size();
    for (size_t chunk = n; chunk >= 1 && budget(); chunk /= 2) {
      for (size_t i = 0; i < n && budget(); i += chunk) {
        Json cand = best;
        Json* cd = nullptr;
        for (auto& e : cand.o)
          if (e.first == "decisions") cd = &e.second;
        bool any = false;
        for (size_t k = i; k < std::min(n, i + chunk) && k < cd->a.size(); k++)
          if (cd->a[k].n != 0) {
            cd->a[k].n = 0;
            any = true;
          }
        if (!any) continue;
        RunResult r;
        if (stillFails(cand, &r)) {
          adopt(cand, r);
          progress = true;
          for (auto& e : best.o)
            if (e.first == "decisions") n = e.second.a.size();
        }
      }
      if (chunk == 1) break;
    }
    return progress;
  }

  // world-declared simplifications: plan["simplify"] is a list of
  // {"path": [..keys/indices..], "to": value}; each is tried once.
  void run() {
    bool progress = true;
    int round = 0;
    while (progress && budget() && round < 6) {
      progress = false;
      round++;
      std::vector<Path> paths;
      Path cur;
      collect(best, cur, paths, 0);
      // order: history first, then top-level arrays, then nested, decisions last
      std::stable_sort(paths.begin(), paths.end(), [](const Path& a, const Path& b) {
        auto rank = [](const Path& p) {
          if (p.size() == 1 && p[0].first == "history") return 0;
          if (p.size() == 1 && p[0].first == "decisions") return 9;
          return (int)p.size();
        };
        return rank(a) < rank(b);
      });
      for (auto& p : paths) {
        if (!budget()) break;
        if (p.size() == 1 && p[0].first == "decisions") continue;
        if (ddminArray(p)) progress = true;
      }
      if (budget()) {
        Path dp = {{"decisions", 0}};
        if (ddminArray(dp)) progress = true;
        if (zeroDecisions()) progress = true;
      }
    }
  }
};

std::vector<std::string> g_exclude, g_force;

GenOptions makeOpts(const std::string& prop, const std::string& tier) {
  GenOptions o;
  o.property = prop;
  o.tier = tier;
  o.exclude = g_exclude;
  o.force = g_force;
  return o;
}

std::string argValue(int argc, char** argv, const char* name, const char* def) {
  for (int i = 0; i + 1 < argc; i++)
    if (!strcmp(argv[i], name)) return argv[i + 1];
  return def;
}
bool argFlag(int argc, char** argv, const char* name) {
  for (int i = 0; i < argc; i++)
    if (!strcmp(argv[i], name)) return true;
  return false;
}
void argMulti(int argc, char** argv, const char* name, std::vector<std::string>* out) {
  for (int i = 0; i + 1 < argc; i++)
    if (!strcmp(argv[i], name)) out->push_back(argv[i + 1]);
}

int cmdWorker(int argc, char** argv) {
  std::string prop = argValue(argc, argv, "--prop", "");
  std::string tier = argValue(argc, argv, "--tier", "quick");
  uint64_t base = strtoull(argValue(argc, argv, "--seed", "1").c_str(), nullptr, 10);
  uint64_t start = strtoull(argValue(argc, argv, "--start", "0").c_str(), nullptr, 10);
  uint64_t stride = strtoull(argValue(argc, argv, "--stride", "1").c_str(), nullptr, 10);
  double budget = atof(argValue(argc, argv, "--budget-s", "10").c_str());
  uint64_t maxRuns = strtoull(argValue(argc, argv, "--max-runs", "1000000000").c_str(), nullptr, 10);
  std::string dir = argValue(argc, argv, "--dir", "/tmp");
  std::string wid = argValue(argc, argv, "--wid", "0");
  bool emitHashes = argFlag(argc, argv, "--emit-hashes");
  int maxCands = atoi(argValue(argc, argv, "--max-cands", "3").c_str());

  World* w = makeWorld(prop);
  if (!w) {
    fprintf(stderr, "unknown property %s\n", prop.c_str());
    return 2;
  }
  w->warmup();
  GenOptions opt = makeOpts(prop, tier);

  // aggregates
  uint64_t runs = 0, nontrivial = 0, steps = 0, simtime = 0, cands = 0;
  std::map<std::string, uint64_t> counters;
  std::map<std::string, uint64_t> incidental;
  std::unordered_set<uint64_t> distinct;
  std::vector<std::string> samples;
  double t0 = nowSec(), lastSummary = t0;
  uint64_t index = start;
  Json curPlan;
  uint64_t curSeed = 0;

  auto summary = [&](bool final) {
    Json j = Json::obj();
    j.set("runs", (int64_t)runs).set("nontrivial", (int64_t)nontrivial).set("steps", (int64_t)steps);
    j.set("simtime_us", (int64_t)simtime).set("wall_ms", (int64_t)((nowSec() - t0) * 1000)).set("next_index", (int64_t)index);
    j.set("distinct", (int64_t)distinct.size());
    Json c = Json::obj();
    for (auto& e : counters) c.set(e.first, (int64_t)e.second);
    j.set("counters", c);
    Json inc = Json::obj();
    for (auto& e : incidental) inc.set(e.first, (int64_t)e.second);
    j.set("incidental", inc);
    Json s = Json::arr();
    for (auto& x : samples) s.push(Json::str(x));
    j.set("samples", s);
    j.setb("final", final);
    printf("S %s\n", j.dump().c_str());
    fflush(stdout);
  };
  auto writeHashes = [&]() {
    std::string path = dir + "/w" + wid + "-" + std::to_string(start) + ".hashes";
    std::string bytes;
    for (auto h : distinct) bytes.append((const char*)&h, 8);
    util::writeFile(path, bytes);
  };
  auto candidate = [&](const RunResult& r) {
    Json cand = curPlan;
    if (r.patch.kind == Json::Obj)
      for (auto& e : r.patch.o) cand.set(e.first, e.second);
    if (!r.decisions.empty()) {
      Json d = Json::arr();
      for (auto v : r.decisions) d.push(Json::num(v));
      cand.set("decisions", d);
    }
    Json ex = Json::obj();
    ex.set("status", r.status).set("clause", r.clause).set("detail", r.detail);
    ex.set("evhash", util::hex(std::string((const char*)&r.evhash, 8)));
    cand.set("expect", ex);
    std::string path = dir + "/cand-" + wid + "-" + std::to_string(curSeed) + ".json";
    util::writeFile(path, cand.dump(1));
    printf("V %llu %s %s %s\n", (unsigned long long)curSeed, r.status.c_str(), r.clause.c_str(), path.c_str());
    fflush(stdout);
    cands++;
  };

  g_mode = MODE_WORKER;
  g_workerFatal = [&](const RunResult& r) {
    runs++;
    candidate(r);
    index += stride;
    summary(true);
    writeHashes();
    printf("X %llu\n", (unsigned long long)index);
    fflush(stdout);
    _exit(0);
  };

  while (runs < maxRuns && nowSec() - t0 < budget && (int)cands < maxCands) {
    curSeed = deriveSeed(base, prop, index);
    curPlan = w->generate(curSeed, opt);
    printf("B %llu %llu\n", (unsigned long long)index, (unsigned long long)curSeed);
    fflush(stdout);
    RunResult r = w->execute(curPlan);
    runs++;
    steps += r.steps;
    simtime += r.simtime_us;
    for (auto& e : r.counters) counters[e.first] += e.second;
    for (auto& s : r.incidental) {
      // keep the first plan in which another property's clause fired: they do not change this check's verdict, but they have
      // pointed at genuine defects more than once (I <clause> <path> lines; the supervisor copies them next to the evidence)
      if (incidental[s]++ == 0) {
        Json p2 = curPlan;
        Json d = Json::arr();
        for (auto x : r.decisions) d.push(Json::num(x));
        p2.set("decisions", d);
        p2.set("incidental_clause", s);
        std::string clean = s;
        for (auto& ch : clean)
          if (ch == ':' || ch == '/' || ch == ' ') ch = '_';
        std::string path = dir + "/incidental-" + wid + "-" + clean + "-" + std::to_string(curSeed) + ".json";
        if (util::writeFile(path, p2.dump(1))) {
          printf("I %s %s\n", s.c_str(), path.c_str());
          fflush(stdout);
        }
      }
    }
    if (r.nontrivial) {
      nontrivial++;
      util::Hasher h;
      h.u64(r.shape);
      h.u64(r.ihash);
      distinct.insert(h.get());
    }
    if (samples.size() < 3 && !r.sample.empty() && (r.nontrivial || runs > 20)) samples.push_back(r.sample);
    if (emitHashes) printf("H %llu %s\n", (unsigned long long)index, util::hex(std::string((const char*)&r.evhash, 8)).c_str());
    if (r.failed()) candidate(r);
    index += stride;
    double t = nowSec();
    if (t - lastSummary > 2.0) {
      summary(false);
      lastSummary = t;
    }
  }
  summary(true);
  writeHashes();
  printf("X done\n");
  fflush(stdout);
  return 0;
}

int cmdPlan(int argc, char** argv) {
  std::string prop = argValue(argc, argv, "--prop", "");
  std::string tier = argValue(argc, argv, "--tier", "quick");
  uint64_t base = strtoull(argValue(argc, argv, "--seed", "1").c_str(), nullptr, 10);
  uint64_t index = strtoull(argValue(argc, argv, "--index", "0").c_str(), nullptr, 10);
  World* w = makeWorld(prop);
  if (!w) return 2;
  uint64_t seed = argFlag(argc, argv, "--raw-seed") ? base : deriveSeed(base, prop, index);
  Json plan = w->generate(seed, makeOpts(prop, tier));
  std::string out = argValue(argc, argv, "--out", "");
  if (out.empty()) printf("%s\n", plan.dump(1).c_str());
  else util::writeFile(out, plan.dump(1));
  return 0;
}

bool loadPlan(const std::string& path, Json* plan) {
  std::string text, err;
  if (!util::readFile(path, &text)) {
    fprintf(stderr, "cannot read %s\n", path.c_str());
    return false;
  }
  if (!Json::parse(text, plan, &err)) {
    fprintf(stderr, "bad JSON in %s: %s\n", path.c_str(), err.c_str());
    return false;
  }
  return true;
}

// run <file>: execute in this (fresh) process; exit 0 ok / 1 failed
int cmdRun(int argc, char** argv, bool replay) {
  if (argc < 1) return 2;
  Json plan;
  if (!loadPlan(argv[0], &plan)) return 2;
  std::string prop = plan.gets("property");
  World* w = makeWorld(prop);
  if (!w) return 2;
  w->warmup();
  g_mode = MODE_ONESHOT;
  const Json* ex = plan.find("expect");
  RunResult r;
  if (replay && ex && ex->gets("status") == "realtime") {
    // the expected failure is a run that never ends in real time (a loop the scheduler cannot see): contain it in a child
    r = runIsolated(w, plan, 90, prop);
    if (r.status == "harness" && r.clause == prop + ".realtime") {
      printf("REPLAY reproduced property=%s clause=%s\nthe run made no progress for 90 s of real time (a loop without any synchronisation, system call or clock read)\n",
             prop.c_str(), ex->gets("clause").c_str());
      return 1;
    }
    printf("REPLAY passed: the run ended (expected %s)\n", ex->gets("clause").c_str());
    return 0;
  } else if (replay && ex && ex->gets("status") == "san") {
    // the expected failure kills the process (sanitizer report): contain it in a child of this fresh process
    r = runIsolated(w, plan, 120, prop);
  } else {
    r = w->execute(plan);
  }
  printf("RESULT %s\n", r.toJson().dump().c_str());
  if (!replay) return r.failed() ? 1 : 0;
  std::string eclause = ex ? ex->gets("clause") : "";
  std::string estatus = ex ? ex->gets("status") : "";
  std::string ehash = ex ? ex->gets("evhash") : "";
  std::string hash = util::hex(std::string((const char*)&r.evhash, 8));
  if (!r.failed()) {
    printf("REPLAY passed: no violation (expected %s)\n", eclause.c_str());
    return 0;
  }
  if (r.clause == eclause && r.status == estatus && (ehash.empty() || hash == ehash || estatus == "san")) {
    printf("REPLAY reproduced property=%s clause=%s evhash=%s\n%s\n", prop.c_str(), r.clause.c_str(), hash.c_str(), r.detail.c_str());
    return 1;
  }
  printf("REPLAY diverged: got %s/%s/%s expected %s/%s/%s\n%s\n", r.status.c_str(), r.clause.c_str(), hash.c_str(), estatus.c_str(),
         eclause.c_str(), ehash.c_str(), r.detail.c_str());
  return r.clause == eclause ? 3 : 2;
}

// one-shot modes must also report hangs as results
void oneshotFatal(const RunResult& r) {
  printf("RESULT %s\n", r.toJson().dump().c_str());
  fflush(stdout);
}

int cmdShrink(int argc, char** argv) {
  if (argc < 1) return 2;
  Json plan;
  if (!loadPlan(argv[0], &plan)) return 2;
  std::string out = argValue(argc, argv, "--out", "");
  int maxRuns = atoi(argValue(argc, argv, "--max-runs", "400").c_str());
  double maxSec = atof(argValue(argc, argv, "--max-s", "40").c_str());
  std::string prop = plan.gets("property");
  World* w = makeWorld(prop);
  if (!w) return 2;
  w->warmup();
  // confirm: twice, same clause and event hash
  RunResult a = runIsolated(w, plan, 60, prop);
  RunResult b = runIsolated(w, plan, 60, prop);
  const Json* ex = plan.find("expect");
  if (!a.failed()) {
    printf("SHRINK not-reproduced: run passes\n");
    return 2;
  }
  if (!sameFailure(a, b) || (a.evhash != b.evhash && a.status != "san")) {
    printf("SHRINK nondeterministic: %s/%s/%llx vs %s/%s/%llx\n", a.status.c_str(), a.clause.c_str(), (unsigned long long)a.evhash,
           b.status.c_str(), b.clause.c_str(), (unsigned long long)b.evhash);
    return 2;
  }
  if (ex && ex->gets("clause") != a.clause) {
    printf("SHRINK clause-changed: candidate said %s, re-run says %s\n", ex->gets("clause").c_str(), a.clause.c_str());
    // continue with what the re-run says: it is deterministic
  }
  Shrinker s;
  s.w = w;
  s.prop = prop;
  s.target = a;
  s.best = plan;
  s.maxRuns = maxRuns;
  s.deadline = nowSec() + maxSec;
  s.adopt(plan, a);
  s.run();
  // final confirmation of the minimised plan
  RunResult f = runIsolated(w, s.best, 60, prop);
  if (!sameFailure(f, a)) {
    printf("SHRINK lost-failure after minimisation; keeping original\n");
    s.best = plan;
    f = a;
    s.adopt(plan, a);
  }
  Json exj = Json::obj();
  exj.set("status", f.status).set("clause", f.clause).set("detail", f.detail);
  exj.set("evhash", util::hex(std::string((const char*)&f.evhash, 8)));
  s.best.set("expect", exj);
  if (!out.empty()) util::writeFile(out, s.best.dump(1));
  printf("SHRINK ok clause=%s runs=%d out=%s\n", f.clause.c_str(), s.runs, out.c_str());
  return 0;
}

} // namespace

static int g_savedOut = -1, g_savedErr = -1, g_nullFd = -1, g_silenceDepth = 0;

Silence::Silence() {
  if (getenv("VSIM_VERBOSE")) return;
  if (g_silenceDepth++ > 0) return;
  fflush(stdout);
  fflush(stderr);
  if (g_nullFd < 0) g_nullFd = open("/dev/null", O_WRONLY);
  if (g_savedOut < 0) g_savedOut = dup(1);
  if (g_savedErr < 0) g_savedErr = dup(2);
  dup2(g_nullFd, 1);
  dup2(g_nullFd, 2);
}

Silence::~Silence() {
  if (getenv("VSIM_VERBOSE")) return;
  if (--g_silenceDepth > 0) return;
  unsilence();
}

void unsilence() {
  if (g_savedOut < 0) return;
  fflush(stdout);
  fflush(stderr);
  dup2(g_savedOut, 1);
  dup2(g_savedErr, 2);
  g_silenceDepth = 0;
}

extern "C" void vsim_unsilence() { unsilence(); }

void fatal_result(const RunResult& r) {
  unsilence();
  switch (g_mode) {
  case MODE_CHILD:
    writeAll(g_childFd, r.toJson().dump());
    _exit(0);
  case MODE_WORKER:
    g_workerFatal(r);
    _exit(0);
  case MODE_ONESHOT:
    oneshotFatal(r);
    _exit(1);
  default:
    fprintf(stderr, "fatal result outside a run: %s %s\n", r.clause.c_str(), r.detail.c_str());
    _exit(3);
  }
}

int main_entry(int argc, char** argv) {
  // stable addresses: disable ASLR once (pointer-keyed containers must not leak into behaviour;
  // the determinism gate checks that they do not, this just removes one source of noise)
  if (!getenv("VSIM_NO_REEXEC") && !getenv("VSIM_REEXECED")) {
    int pers = personality(0xffffffff);
    if (pers != -1 && !(pers & ADDR_NO_RANDOMIZE)) {
      if (personality(pers | ADDR_NO_RANDOMIZE) != -1) {
        setenv("VSIM_REEXECED", "1", 1);
        execv("/proc/self/exe", argv);
      }
    }
  }
  if (argc < 2) {
    fprintf(stderr, "usage: vsim worker|plan|run|replay|shrink ...\n");
    return 2;
  }
  argMulti(argc, argv, "--exclude", &g_exclude);
  argMulti(argc, argv, "--force", &g_force);
  std::string cmd = argv[1];
  if (cmd == "worker") return cmdWorker(argc - 2, argv + 2);
  if (cmd == "plan") return cmdPlan(argc - 2, argv + 2);
  if (cmd == "run") return cmdRun(argc - 2, argv + 2, false);
  if (cmd == "replay") return cmdRun(argc - 2, argv + 2, true);
  if (cmd == "shrink") return cmdShrink(argc - 2, argv + 2);
  fprintf(stderr, "unknown command %s\n", cmd.c_str());
  return 2;
}

} // namespace runner

int main(int argc, char** argv) { return runner::main_entry(argc, argv); }
