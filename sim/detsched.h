// detsched — deterministic scheduler for real pthreads (DESIGN.md 2.2).
//
// Exactly one simulated thread runs at a time; every other one is parked on a
// private futex word.  A thread gives up the token only inside a wrapped call
// (pthread_*, sleeps, clock reads, simproc blocking I/O) or an explicit
// sim::yield().  All choices are drawn from one PRNG (or from a replay
// vector) and appended to the decision vector.
#pragma once
#include <cstdint>
#include <functional>
#include <string>
#include <vector>

namespace sim {

enum Policy : int {
  POLICY_RANDOM = 0,   // uniform among runnable threads
  POLICY_STICKY = 1,   // keep running the current thread with probability stickyPermille
  POLICY_PCT = 2,      // random priorities with pctDepth priority change points
};

struct SchedConfig {
  uint64_t seed = 1;
  int policy = POLICY_STICKY;
  int stickyPermille = 900;
  int pctDepth = 2;
  uint64_t pctHorizon = 2000;      // expected number of steps (for change point placement)
  uint64_t maxSteps = 400000;      // livelock cap
  int timeSkipPermille = 0;        // chance that a timed waiter fires although others can run
  bool useReplay = false;
  std::vector<uint32_t> replay;    // decisions to follow (index among candidates; taken modulo)
};

enum class EndKind { None, Hang, Livelock };

struct ThreadDump {
  int id;
  std::string role;
  std::string state;
};

// Called (on whatever thread detected it) when the simulation cannot continue.
// Must not return.
typedef void (*FatalHandler)(EndKind kind, const std::vector<ThreadDump>& threads);
void set_fatal_handler(FatalHandler h);

// Turn the calling thread into simulated thread 0 ("main") and start a run.
void begin(const SchedConfig& cfg);
// Wait (in simulation) for every other simulated thread to finish, then leave
// simulation mode.  Returns the number of threads that had to be drained.
int end();

bool active();                       // calling thread is simulated
void detach_current_thread();        // the calling thread leaves the simulation for good (sanitizer reporting)
int self_id();                       // -1 if not simulated
void set_role(const char* role);     // role of the calling thread
void name_next_thread(const char* role); // role given to the next thread created by this thread
const char* role_of(int id);
void set_child_role(const char* role);   // role prefix inherited by threads created by this thread (and theirs)
int live_with_role_prefix(const char* prefix); // simulated threads not finished whose role starts with prefix

void yield(const char* why = nullptr);              // explicit scheduling point
// Block the calling thread until pred() is true (evaluated by the scheduler
// while no simulated thread runs) or the simulated deadline passes
// (deadline_ns == 0: none).  Returns false on timeout.
bool block_until(const std::function<bool()>& pred, uint64_t deadline_ns, const char* what);
void sleep_ns(uint64_t ns);

// Harness-level synchronisation made of plain flags and block_until is invisible to ThreadSanitizer (the scheduler's hand-offs are
// deliberately not annotated, so that only the code under test's own synchronisation orders its accesses).  Where the harness itself
// orders two threads - "wait until the canceller thread has finished, then destroy the engine" - it says so with these.
void hb_release(const void* tag);
void hb_acquire(const void* tag);
// "I have seen (through live_threads / live_with_role_prefix / block_until) that the simulated threads I waited for have
// exited": everything they did happens before what the caller does next.  (A detached thread cannot be joined.)
void hb_acquire_thread_exits();

// spawn a simulated thread (detached unless joinable); returns its sim id
int spawn(const char* role, std::function<void()> fn);
int live_threads();                  // simulated threads not yet finished (incl. caller)

// simulated clock (ns since the epoch); strictly increasing when ticked
uint64_t now_ns();
uint64_t tick_ns();                  // advance by a small quantum and return the new time
void advance_ns(uint64_t ns);

// observability
uint64_t steps();
uint64_t switches();
uint64_t interleaving_hash();
const std::vector<uint32_t>& decisions();
struct Stats {
  uint64_t steps = 0, switches = 0, threads = 0, maxLive = 0, mutexBlocks = 0, condWaits = 0,
           condSignalsLost = 0, timeJumps = 0, timeSkips = 0, sleeps = 0, predBlocks = 0, choicePoints = 0;
};
Stats stats();

// A decision drawn from the scheduler's stream and recorded (used for e.g.
// which condvar waiter to wake; also available to simproc).
uint32_t choose(uint32_t n);

} // namespace sim
