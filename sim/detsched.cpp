// detsched implementation.  This TU is never compiled with -fsanitize=thread:
// TSan must not see the scheduler's hand-offs as synchronisation (DESIGN 2.2).
#include "sim/detsched.h"

#include <atomic>
#include <cerrno>
#include <climits>
#include <cstdio>
#include <cstdlib>
#include <cstring>
#include <linux/futex.h>
#include <pthread.h>
#include <sys/syscall.h>
#include <sys/time.h>
#include <time.h>
#include <unistd.h>
#include <unordered_map>

extern "C" {
void __tsan_acquire(void*) __attribute__((weak));
void __tsan_release(void*) __attribute__((weak));

long __real_syscall(long number, long a1, long a2, long a3, long a4, long a5, long a6);
unsigned int __real__ZNSt13random_device9_M_getvalEv(void* self);
int __real_pthread_create(pthread_t*, const pthread_attr_t*, void* (*)(void*), void*);
int __real_pthread_join(pthread_t, void**);
int __real_pthread_detach(pthread_t);
int __real_pthread_mutex_lock(pthread_mutex_t*);
int __real_pthread_mutex_trylock(pthread_mutex_t*);
int __real_pthread_mutex_unlock(pthread_mutex_t*);
int __real_pthread_cond_wait(pthread_cond_t*, pthread_mutex_t*);
int __real_pthread_cond_timedwait(pthread_cond_t*, pthread_mutex_t*, const struct timespec*);
int __real_pthread_cond_clockwait(pthread_cond_t*, pthread_mutex_t*, clockid_t, const struct timespec*);
int __real_pthread_cond_signal(pthread_cond_t*);
int __real_pthread_cond_broadcast(pthread_cond_t*);
int __real_pthread_once(pthread_once_t*, void (*)(void));
int __real_sched_yield(void);
int __real_nanosleep(const struct timespec*, struct timespec*);
int __real_clock_nanosleep(clockid_t, int, const struct timespec*, struct timespec*);
int __real_usleep(useconds_t);
unsigned __real_sleep(unsigned);
int __real_clock_gettime(clockid_t, struct timespec*);
int __real_gettimeofday(struct timeval*, void*);
time_t __real_time(time_t*);
}

namespace sim {
int wrap_create(pthread_t*, const pthread_attr_t*, void* (*)(void*), void*);
namespace {

struct SimThread {
  int id = 0;
  std::string role;
  std::string nextRole;
  std::string childRole;
  std::atomic<int> go{0};
  enum St { RUN, MUTEX, COND, JOIN, SLEEP, PRED, DONE } st = RUN;
  void* obj = nullptr;
  SimThread* joinTarget = nullptr;
  uint64_t deadline = 0;
  bool hasDeadline = false;
  bool signalled = false;
  const std::function<bool()>* pred = nullptr;
  const char* what = nullptr;
  bool detached = false;
  bool realJoined = false;
  pthread_t real{};
  void* (*start)(void*) = nullptr;
  void* arg = nullptr;
  void* ret = nullptr;
  int prio = 0;
};

struct MutexState {
  SimThread* owner = nullptr;
  unsigned count = 0;
};

struct OnceState {
  int state = 0; // 1 running, 2 done
};

struct Sched {
  bool on = false;
  uint64_t randomDraws = 0;
  SchedConfig cfg;
  std::vector<SimThread*> threads;
  SimThread* cur = nullptr;
  std::unordered_map<void*, MutexState> mutexes;
  std::unordered_map<void*, OnceState> onces;
  uint64_t now = 0;
  uint64_t rng = 0;
  uint64_t ihash = 0;
  std::vector<uint32_t> decisions;
  size_t replayPos = 0;
  std::vector<uint64_t> pctPoints;
  int pctLow = 0;
  Stats st;
  bool draining = false;
};

Sched S;
char g_threadExitTag;   // ThreadSanitizer: released by every simulated thread as it ends (sim::hb_acquire_thread_exits)
thread_local SimThread* tl_self = nullptr;
FatalHandler g_fatal = nullptr;

inline long futex(std::atomic<int>* addr, int op, int val) {
  return __real_syscall(SYS_futex, (long)reinterpret_cast<int*>(addr), (long)op, (long)val, 0L, 0L, 0L);   // the scheduler's own parking: never simulated
}

void park(SimThread* t) {
  while (t->go.load(std::memory_order_acquire) == 0)
    futex(&t->go, FUTEX_WAIT_PRIVATE, 0);
  t->go.store(0, std::memory_order_relaxed);
}

void wake(SimThread* t) {
  t->go.store(1, std::memory_order_release);
  futex(&t->go, FUTEX_WAKE_PRIVATE, 1);
}

uint64_t rnd() {
  // splitmix64
  uint64_t z = (S.rng += 0x9e3779b97f4a7c15ULL);
  z = (z ^ (z >> 30)) * 0xbf58476d1ce4e5b9ULL;
  z = (z ^ (z >> 27)) * 0x94d049bb133111ebULL;
  return z ^ (z >> 31);
}

const char* stName(SimThread* t) {
  switch (t->st) {
  case SimThread::RUN: return "runnable";
  case SimThread::MUTEX: return "blocked-on-mutex";
  case SimThread::COND: return "waiting-on-condvar";
  case SimThread::JOIN: return "joining";
  case SimThread::SLEEP: return "sleeping";
  case SimThread::PRED: return "blocked";
  case SimThread::DONE: return "done";
  }
  return "?";
}

[[noreturn]] void fatal(EndKind kind) {
  std::vector<ThreadDump> dump;
  for (auto* t : S.threads) {
    if (t->st == SimThread::DONE) continue;
    ThreadDump d;
    d.id = t->id;
    d.role = t->role;
    d.state = stName(t);
    if (t->st == SimThread::PRED && t->what) d.state += std::string(":") + t->what;
    if (t->st == SimThread::JOIN && t->joinTarget) d.state += ":" + t->joinTarget->role;
    if (t->st == SimThread::MUTEX) {
      auto it = S.mutexes.find(t->obj);
      if (it != S.mutexes.end() && it->second.owner) d.state += ":held-by-" + it->second.owner->role;
    }
    dump.push_back(d);
  }
  fprintf(stderr, "detsched: %s steps=%llu cap=%llu\n", kind == EndKind::Hang ? "HANG" : "LIVELOCK", (unsigned long long)S.st.steps, (unsigned long long)S.cfg.maxSteps);
  if (g_fatal) g_fatal(kind, dump);
  for (auto& d : dump) fprintf(stderr, "  thread %d [%s] %s\n", d.id, d.role.c_str(), d.state.c_str());
  _exit(3);
}

bool runnable(SimThread* t) {
  switch (t->st) {
  case SimThread::RUN: return true;
  case SimThread::MUTEX: {
    auto it = S.mutexes.find(t->obj);
    return it == S.mutexes.end() || it->second.owner == nullptr;
  }
  case SimThread::COND: return t->signalled || (t->hasDeadline && S.now >= t->deadline);
  case SimThread::JOIN: return t->joinTarget->st == SimThread::DONE;
  case SimThread::SLEEP: return S.now >= t->deadline;
  case SimThread::PRED: return (t->hasDeadline && S.now >= t->deadline) || (*t->pred)();
  case SimThread::DONE: return false;
  }
  return false;
}

bool timed(SimThread* t) {
  return (t->st == SimThread::SLEEP) ||
         ((t->st == SimThread::COND || t->st == SimThread::PRED) && t->hasDeadline);
}

uint32_t decide(uint32_t n, bool threadChoice, SimThread** cands) {
  uint32_t d = 0;
  S.st.choicePoints++;
  if (S.cfg.useReplay) {
    d = S.replayPos < S.cfg.replay.size() ? S.cfg.replay[S.replayPos++] % n : 0;
  } else if (!threadChoice) {
    d = (uint32_t)(rnd() % n);
  } else {
    switch (S.cfg.policy) {
    case POLICY_RANDOM:
      d = (uint32_t)(rnd() % n);
      break;
    case POLICY_STICKY: {
      bool curFirst = cands[0] == S.cur;
      if (curFirst && (int)(rnd() % 1000) < S.cfg.stickyPermille) d = 0;
      else if (curFirst) d = 1 + (uint32_t)(rnd() % (n - 1));
      else d = (uint32_t)(rnd() % n);
      break;
    }
    case POLICY_PCT: {
      int best = INT_MIN;
      for (uint32_t i = 0; i < n; i++)
        if (cands[i]->prio > best) { best = cands[i]->prio; d = i; }
      break;
    }
    }
  }
  S.decisions.push_back(d);
  return d;
}

// Pick the next thread to run.  `self` is the caller (holding the token); it
// may be blocked or done.  Returns the chosen thread (possibly self).
SimThread* pick(SimThread* self) {
  S.st.steps++;
  S.now += 100;
  if (S.st.steps > S.cfg.maxSteps) fatal(EndKind::Livelock);
  if (S.cfg.policy == POLICY_PCT && !S.cfg.useReplay) {
    for (auto p : S.pctPoints)
      if (p == S.st.steps && self->st != SimThread::DONE) self->prio = --S.pctLow;
  }

  SimThread* cands[256];
  uint32_t n;
  for (;;) {
    n = 0;
    if (self->st != SimThread::DONE && runnable(self)) cands[n++] = self;
    for (auto* t : S.threads)
      if (t != self && n < 256 && runnable(t)) cands[n++] = t;
    // optional: let simulated time pass although somebody could run
    if (n > 0 && S.cfg.timeSkipPermille > 0) {
      SimThread* earliest = nullptr;
      for (auto* t : S.threads)
        if (timed(t) && t->deadline > S.now && (!earliest || t->deadline < earliest->deadline)) earliest = t;
      if (earliest) {
        // recorded as a binary decision so that replay follows it
        uint32_t skip;
        S.st.choicePoints++;
        if (S.cfg.useReplay) skip = S.replayPos < S.cfg.replay.size() ? S.cfg.replay[S.replayPos++] % 2 : 0;
        else skip = ((int)(rnd() % 1000) < S.cfg.timeSkipPermille) ? 1 : 0;
        S.decisions.push_back(skip);
        if (skip) {
          S.now = earliest->deadline;
          S.st.timeSkips++;
          continue;
        }
      }
    }
    if (n > 0) break;
    // nobody can run: jump the clock to the earliest deadline
    SimThread* earliest = nullptr;
    for (auto* t : S.threads)
      if (timed(t) && (!earliest || t->deadline < earliest->deadline)) earliest = t;
    if (!earliest) fatal(EndKind::Hang);
    if (earliest->deadline > S.now) S.now = earliest->deadline;
    S.st.timeJumps++;
  }
  uint32_t idx = n == 1 ? 0 : decide(n, true, cands);
  SimThread* next = cands[idx];
  S.ihash = (S.ihash ^ (uint64_t)(next->id + 1)) * 1099511628211ULL;
  return next;
}

// Called by the token holder.  If the caller is blocked (st != RUN) this
// returns only after the caller has been selected again.
void reschedule(SimThread* self) {
  SimThread* next = pick(self);
  if (next == self) {
    self->st = SimThread::RUN;
    return;
  }
  S.st.switches++;
  S.cur = next;
  wake(next);
  park(self);
  // resumed
  self->st = SimThread::RUN;
}

inline void sched_point(SimThread* self) { reschedule(self); }

void finish_thread(SimThread* self) {
  self->st = SimThread::DONE;
  tl_self = nullptr;
  SimThread* next = pick(self);
  S.st.switches++;
  S.cur = next;
  wake(next);
}

void* trampoline(void* p) {
  SimThread* t = static_cast<SimThread*>(p);
  tl_self = t;
  park(t);
  t->st = SimThread::RUN;
  t->ret = t->start(t->arg);
  void* r = t->ret;
  if (__tsan_release) __tsan_release(&g_threadExitTag);
  finish_thread(t);
  return r;
}

SimThread* findByReal(pthread_t th) {
  // pthread_t values are reused once a thread is joined or (detached and) finished:
  // the newest simulated thread with that handle is the live one.
  for (auto it = S.threads.rbegin(); it != S.threads.rend(); ++it) {
    SimThread* t = *it;
    if (t->id != 0 && pthread_equal(t->real, th)) {
      if (t->realJoined || t->detached) return nullptr;
      return t;
    }
  }
  return nullptr;
}

bool isRecursive(pthread_mutex_t* m) {
  return (m->__data.__kind & 127) == PTHREAD_MUTEX_RECURSIVE_NP;
}

void acquireMutex(SimThread* self, pthread_mutex_t* m, unsigned count) {
  for (;;) {
    auto& ms = S.mutexes[m];
    if (!ms.owner) {
      ms.owner = self;
      ms.count = count;
      break;
    }
    self->st = SimThread::MUTEX;
    self->obj = m;
    S.st.mutexBlocks++;
    reschedule(self);
  }
  if (__tsan_acquire) __tsan_acquire(m);
}

unsigned releaseMutexFully(SimThread* self, pthread_mutex_t* m) {
  auto it = S.mutexes.find(m);
  if (it == S.mutexes.end() || it->second.owner != self) return 0;
  unsigned c = it->second.count;
  if (__tsan_release) __tsan_release(m);
  S.mutexes.erase(it);
  return c;
}

bool anyWaiterOn(void* m) {
  for (auto* t : S.threads)
    if (t->st == SimThread::MUTEX && t->obj == m) return true;
  return false;
}

int condWait(pthread_cond_t* c, pthread_mutex_t* m, bool hasDeadline, uint64_t deadline) {
  SimThread* self = tl_self;
  sched_point(self);
  unsigned count = releaseMutexFully(self, m);
  if (count == 0) count = 1; // waiting without holding the mutex: UB; be lenient
  self->st = SimThread::COND;
  self->obj = c;
  self->signalled = false;
  self->hasDeadline = hasDeadline;
  self->deadline = deadline;
  S.st.condWaits++;
  reschedule(self);
  bool timedOut = !self->signalled;
  self->hasDeadline = false;
  self->signalled = false;
  self->obj = nullptr;
  acquireMutex(self, m, count);
  return timedOut ? ETIMEDOUT : 0;
}

uint64_t tsToNs(const struct timespec* ts) {
  return (uint64_t)ts->tv_sec * 1000000000ULL + (uint64_t)ts->tv_nsec;
}

struct SpawnArg {
  std::function<void()> fn;
};
void* spawnTramp(void* p) {
  SpawnArg* a = static_cast<SpawnArg*>(p);
  a->fn();
  delete a;
  return nullptr;
}

} // namespace

void set_fatal_handler(FatalHandler h) { g_fatal = h; }

void begin(const SchedConfig& cfg) {
  for (auto* t : S.threads) delete t;
  S.threads.clear();
  S.mutexes.clear();
  S.onces.clear();
  S.cfg = cfg;
  S.randomDraws = 0;
  S.now = 1700000000ULL * 1000000000ULL;
  S.rng = cfg.seed * 0x9e3779b97f4a7c15ULL + 0x1234567;
  S.ihash = 1469598103934665603ULL;
  S.decisions.clear();
  S.replayPos = 0;
  S.st = Stats();
  S.draining = false;
  S.pctPoints.clear();
  S.pctLow = 0;
  if (cfg.policy == POLICY_PCT)
    for (int i = 0; i < cfg.pctDepth; i++) S.pctPoints.push_back(1 + rnd() % (cfg.pctHorizon ? cfg.pctHorizon : 1));
  SimThread* t0 = new SimThread;
  t0->id = 0;
  t0->role = "main";
  t0->prio = (int)(rnd() % 1000) + 1;
  t0->real = pthread_self();
  S.threads.push_back(t0);
  S.cur = t0;
  S.st.threads = 1;
  S.st.maxLive = 1;
  tl_self = t0;
  S.on = true;
}

int end() {
  SimThread* self = tl_self;
  int drained = 0;
  for (auto* t : S.threads)
    if (t != self && t->st != SimThread::DONE) drained++;
  S.draining = true;
  std::function<bool()> allDone = [self]() {
    for (auto* t : S.threads)
      if (t != self && t->st != SimThread::DONE) return false;
    return true;
  };
  if (!allDone()) {
    self->st = SimThread::PRED;
    self->pred = &allDone;
    self->hasDeadline = false;
    self->what = "drain";
    reschedule(self);
    self->pred = nullptr;
  }
  // release the real threads of joinable threads nobody joined
  for (auto* t : S.threads)
    if (t != self && !t->detached && !t->realJoined) {
      __real_pthread_join(t->real, nullptr);
      t->realJoined = true;
    }
  S.on = false;
  tl_self = nullptr;
  return drained;
}

bool active() { return tl_self != nullptr; }
int self_id() { return tl_self ? tl_self->id : -1; }
void set_role(const char* role) {
  if (tl_self) tl_self->role = role;
}
void name_next_thread(const char* role) {
  if (tl_self) tl_self->nextRole = role;
}
const char* role_of(int id) {
  if (id < 0 || id >= (int)S.threads.size()) return "?";
  return S.threads[id]->role.c_str();
}

void detach_current_thread() { tl_self = nullptr; }

void set_child_role(const char* role) {
  if (tl_self) tl_self->childRole = role ? role : "";
}
int live_with_role_prefix(const char* prefix) {
  int n = 0;
  size_t len = strlen(prefix);
  for (auto* t : S.threads)
    if (t->st != SimThread::DONE && t->role.compare(0, len, prefix) == 0) n++;
  return n;
}

void yield(const char*) {
  if (tl_self) sched_point(tl_self);
}

bool block_until(const std::function<bool()>& pred, uint64_t deadline_ns, const char* what) {
  SimThread* self = tl_self;
  if (!self) return pred();
  sched_point(self);
  if (pred()) return true;
  self->st = SimThread::PRED;
  self->pred = &pred;
  self->hasDeadline = deadline_ns != 0;
  self->deadline = deadline_ns;
  self->what = what;
  S.st.predBlocks++;
  reschedule(self);
  self->pred = nullptr;
  self->hasDeadline = false;
  return pred();
}

void sleep_ns(uint64_t ns) {
  SimThread* self = tl_self;
  if (!self) return;
  S.st.sleeps++;
  self->st = SimThread::SLEEP;
  self->deadline = S.now + ns;
  reschedule(self);
}

void hb_release(const void* tag) {
  if (__tsan_release) __tsan_release(const_cast<void*>(tag));
}
void hb_acquire(const void* tag) {
  if (__tsan_acquire) __tsan_acquire(const_cast<void*>(tag));
}
void hb_acquire_thread_exits() {
  if (__tsan_acquire) __tsan_acquire(&g_threadExitTag);
}

int spawn(const char* role, std::function<void()> fn) {
  SimThread* self = tl_self;
  if (!self) return -1;
  self->nextRole = role;
  SpawnArg* a = new SpawnArg{std::move(fn)};
  pthread_t th;
  pthread_attr_t attr;
  pthread_attr_init(&attr);
  pthread_attr_setdetachstate(&attr, PTHREAD_CREATE_DETACHED);
  wrap_create(&th, &attr, spawnTramp, a);
  pthread_attr_destroy(&attr);
  return S.threads.back()->id;
}

int live_threads() {
  int n = 0;
  for (auto* t : S.threads)
    if (t->st != SimThread::DONE) n++;
  return n;
}

uint64_t now_ns() { return S.now; }
uint64_t tick_ns() { return ++S.now; }
void advance_ns(uint64_t ns) { S.now += ns; }
uint64_t steps() { return S.st.steps; }
uint64_t switches() { return S.st.switches; }
uint64_t interleaving_hash() { return S.ihash; }
const std::vector<uint32_t>& decisions() { return S.decisions; }
Stats stats() { return S.st; }

uint32_t choose(uint32_t n) {
  if (n <= 1) return 0;
  return decide(n, false, nullptr);
}

int wrap_create(pthread_t* th, const pthread_attr_t* attr, void* (*fn)(void*), void* arg) {
  SimThread* self = tl_self;
  sched_point(self);
  SimThread* t = new SimThread;
  t->id = (int)S.threads.size();
  if (!self->nextRole.empty()) {
    t->role = self->nextRole;
    self->nextRole.clear();
  } else if (!self->childRole.empty()) {
    t->role = self->childRole + "-" + std::to_string(t->id);
    t->childRole = self->childRole;
  } else {
    t->role = "t" + std::to_string(t->id);
  }
  t->start = fn;
  t->arg = arg;
  t->prio = (int)(rnd() % 1000) + 1;
  if (attr) {
    int ds = 0;
    pthread_attr_getdetachstate(attr, &ds);
    t->detached = ds == PTHREAD_CREATE_DETACHED;
  }
  S.threads.push_back(t);
  S.st.threads++;
  uint64_t live = (uint64_t)live_threads();
  if (live > S.st.maxLive) S.st.maxLive = live;
  int rc = __real_pthread_create(&t->real, attr, trampoline, t);
  if (rc != 0) {
    t->st = SimThread::DONE;
    return rc;
  }
  if (th) *th = t->real;
  return 0;
}

} // namespace sim

using namespace sim;

extern "C" {

int __wrap_pthread_create(pthread_t* th, const pthread_attr_t* attr, void* (*fn)(void*), void* arg) {
  if (!tl_self) return __real_pthread_create(th, attr, fn, arg);
  return wrap_create(th, attr, fn, arg);
}

int __wrap_pthread_join(pthread_t th, void** ret) {
  SimThread* self = tl_self;
  if (!self) return __real_pthread_join(th, ret);
  SimThread* t = findByReal(th);
  if (!t) return __real_pthread_join(th, ret);
  sched_point(self);
  if (t->st != SimThread::DONE) {
    self->st = SimThread::JOIN;
    self->joinTarget = t;
    reschedule(self);
    self->joinTarget = nullptr;
  }
  t->realJoined = true;
  return __real_pthread_join(th, ret);
}

int __wrap_pthread_detach(pthread_t th) {
  SimThread* self = tl_self;
  if (self) {
    SimThread* t = findByReal(th);
    if (t) t->detached = true;
  }
  return __real_pthread_detach(th);
}

int __wrap_pthread_mutex_lock(pthread_mutex_t* m) {
  SimThread* self = tl_self;
  if (!self) return __real_pthread_mutex_lock(m);
  sched_point(self);
  auto it = S.mutexes.find(m);
  if (it != S.mutexes.end() && it->second.owner == self) {
    if (isRecursive(m)) {
      it->second.count++;
      return 0;
    }
    // self-deadlock on a normal mutex
    self->st = SimThread::MUTEX;
    self->obj = m;
    reschedule(self); // can only return if somebody else unlocks it (never) -> hang report
  }
  acquireMutex(self, m, 1);
  return 0;
}

int __wrap_pthread_mutex_trylock(pthread_mutex_t* m) {
  SimThread* self = tl_self;
  if (!self) return __real_pthread_mutex_trylock(m);
  sched_point(self);
  auto it = S.mutexes.find(m);
  if (it != S.mutexes.end() && it->second.owner) {
    if (it->second.owner == self && isRecursive(m)) {
      it->second.count++;
      return 0;
    }
    return EBUSY;
  }
  acquireMutex(self, m, 1);
  return 0;
}

int __wrap_pthread_mutex_unlock(pthread_mutex_t* m) {
  SimThread* self = tl_self;
  if (!self) return __real_pthread_mutex_unlock(m);
  auto it = S.mutexes.find(m);
  if (it == S.mutexes.end() || it->second.owner != self) return EPERM;
  if (it->second.count > 1) {
    it->second.count--;
    return 0;
  }
  if (__tsan_release) __tsan_release(m);
  S.mutexes.erase(it);
  if (anyWaiterOn(m)) sched_point(self);
  return 0;
}

int __wrap_pthread_cond_wait(pthread_cond_t* c, pthread_mutex_t* m) {
  if (!tl_self) return __real_pthread_cond_wait(c, m);
  condWait(c, m, false, 0);
  return 0;
}

int __wrap_pthread_cond_timedwait(pthread_cond_t* c, pthread_mutex_t* m, const struct timespec* ts) {
  if (!tl_self) return __real_pthread_cond_timedwait(c, m, ts);
  return condWait(c, m, true, tsToNs(ts));
}

int __wrap_pthread_cond_clockwait(pthread_cond_t* c, pthread_mutex_t* m, clockid_t clk, const struct timespec* ts) {
  if (!tl_self) return __real_pthread_cond_clockwait(c, m, clk, ts);
  return condWait(c, m, true, tsToNs(ts));
}

int __wrap_pthread_cond_signal(pthread_cond_t* c) {
  SimThread* self = tl_self;
  if (!self) return __real_pthread_cond_signal(c);
  sched_point(self);
  SimThread* w[256];
  uint32_t n = 0;
  for (auto* t : S.threads)
    if (t->st == SimThread::COND && t->obj == c && !t->signalled && n < 256) w[n++] = t;
  if (n == 0) {
    S.st.condSignalsLost++;
    return 0;
  }
  uint32_t idx = n == 1 ? 0 : decide(n, false, nullptr);
  w[idx]->signalled = true;
  return 0;
}

int __wrap_pthread_cond_broadcast(pthread_cond_t* c) {
  SimThread* self = tl_self;
  if (!self) return __real_pthread_cond_broadcast(c);
  sched_point(self);
  bool any = false;
  for (auto* t : S.threads)
    if (t->st == SimThread::COND && t->obj == c) {
      t->signalled = true;
      any = true;
    }
  if (!any) S.st.condSignalsLost++;
  return 0;
}

int __wrap_pthread_once(pthread_once_t* ctl, void (*fn)(void)) {
  SimThread* self = tl_self;
  if (!self) return __real_pthread_once(ctl, fn);
  for (;;) {
    auto& os = S.onces[ctl];
    // a once object that has been run holds glibc's "done" value; an untouched one at a remembered address is a new object
    // in recycled memory (every std::promise carries one), not the old one
    if (os.state == 2 && *ctl == PTHREAD_ONCE_INIT) os.state = 0;
    if (os.state == 2) return 0;
    if (os.state == 0) {
      os.state = 1;
      int rc = __real_pthread_once(ctl, fn);
      S.onces[ctl].state = 2;
      return rc;
    }
    std::function<bool()> done = [ctl]() { return S.onces[ctl].state == 2; };
    block_until(done, 0, "pthread_once");
  }
}

int __wrap_sched_yield(void) {
  if (!tl_self) return __real_sched_yield();
  // a thread that yields is spinning on somebody else's progress: under strict priorities it must not starve them
  if (S.cfg.policy == POLICY_PCT) tl_self->prio = --S.pctLow;
  sched_point(tl_self);
  return 0;
}

// libstdc++'s std::future / std::promise block on a futex through syscall(2) directly, not through pthread: without this
// a simulated thread would really sleep while it is the one the scheduler lets run (found with ninja's console pool, whose
// jobs wait on a std::future).  All simulated threads are serialised, so a futex wait is "blocked until the word changes".
long __wrap_syscall(long number, long a1, long a2, long a3, long a4, long a5, long a6) {
  if (!tl_self || number != SYS_futex) return __real_syscall(number, a1, a2, a3, a4, a5, a6);
  int* addr = (int*)a1;
  int op = (int)a2 & 127;   // FUTEX_CMD_MASK
  if (op == 0 /*FUTEX_WAIT*/ || op == 9 /*FUTEX_WAIT_BITSET*/) {
    int val = (int)a3;
    if (__atomic_load_n(addr, __ATOMIC_SEQ_CST) != val) {
      errno = EAGAIN;
      return -1;
    }
    const struct timespec* ts = (const struct timespec*)a4;
    uint64_t deadline = 0;
    if (ts) deadline = op == 0 ? S.now + tsToNs(ts) : tsToNs(ts);   // relative for WAIT, absolute for WAIT_BITSET
    bool ok = sim::block_until([addr, val]() { return __atomic_load_n(addr, __ATOMIC_SEQ_CST) != val; }, deadline, "futex");
    if (!ok) {
      errno = ETIMEDOUT;
      return -1;
    }
    return 0;
  }
  if (op == 1 /*FUTEX_WAKE*/ || op == 10 /*FUTEX_WAKE_BITSET*/) {
    sched_point(tl_self);   // waiters re-evaluate their predicate
    return 0;
  }
  return __real_syscall(number, a1, a2, a3, a4, a5, a6);
}

// std::random_device (the execution queues draw their "build id" from it, and task identifiers - whose decimal length
// decides how many reads a chunked control message takes - are derived from that): one more source of nondeterminism, found
// by the 1000-seed determinism gate as two seeds in a thousand whose event hashes depended on the process they ran in.
unsigned int __wrap__ZNSt13random_device9_M_getvalEv(void* self) {
  if (!tl_self) return __real__ZNSt13random_device9_M_getvalEv(self);
  uint64_t x = S.cfg.seed + 0x9e3779b97f4a7c15ULL * ++S.randomDraws;
  x ^= x >> 31;
  x *= 0xbf58476d1ce4e5b9ULL;
  x ^= x >> 29;
  return (unsigned int)(x >> 16);
}

int __wrap_nanosleep(const struct timespec* req, struct timespec* rem) {
  if (!tl_self) return __real_nanosleep(req, rem);
  sim::sleep_ns(tsToNs(req));
  if (rem) rem->tv_sec = rem->tv_nsec = 0;
  return 0;
}

int __wrap_clock_nanosleep(clockid_t clk, int flags, const struct timespec* req, struct timespec* rem) {
  if (!tl_self) return __real_clock_nanosleep(clk, flags, req, rem);
  uint64_t ns = tsToNs(req);
  if (flags & TIMER_ABSTIME) ns = ns > S.now ? ns - S.now : 0;
  sim::sleep_ns(ns);
  if (rem) rem->tv_sec = rem->tv_nsec = 0;
  return 0;
}

int __wrap_usleep(useconds_t us) {
  if (!tl_self) return __real_usleep(us);
  sim::sleep_ns((uint64_t)us * 1000ULL);
  return 0;
}

unsigned __wrap_sleep(unsigned s) {
  if (!tl_self) return __real_sleep(s);
  sim::sleep_ns((uint64_t)s * 1000000000ULL);
  return 0;
}

int __wrap_clock_gettime(clockid_t clk, struct timespec* ts) {
  if (!tl_self) return __real_clock_gettime(clk, ts);
  uint64_t n = ++S.now;
  ts->tv_sec = (time_t)(n / 1000000000ULL);
  ts->tv_nsec = (long)(n % 1000000000ULL);
  return 0;
}

int __wrap_gettimeofday(struct timeval* tv, void* tz) {
  if (!tl_self) return __real_gettimeofday(tv, tz);
  uint64_t n = ++S.now;
  if (tv) {
    tv->tv_sec = (time_t)(n / 1000000000ULL);
    tv->tv_usec = (suseconds_t)((n % 1000000000ULL) / 1000);
  }
  return 0;
}

time_t __wrap_time(time_t* t) {
  if (!tl_self) return __real_time(t);
  time_t v = (time_t)(S.now / 1000000000ULL);
  if (t) *t = v;
  return v;
}

} // extern "C"

// Once a sanitizer starts reporting, the reporting thread must reach the real OS (it forks the
// symbolizer and talks to it over real pipes): take it out of the simulation.
extern "C" {
void vsim_unsilence() __attribute__((weak));
static void leaveSimulationForReport() {
  sim::detach_current_thread();
  if (vsim_unsilence) vsim_unsilence();
}
void __asan_on_error() { leaveSimulationForReport(); }
void __ubsan_on_report() { leaveSimulationForReport(); }
void __tsan_on_report(void*) { leaveSimulationForReport(); }
}
