#include "sim/simfs.h"
#include "sim/detsched.h"

#include <algorithm>
#include <cerrno>
#include <cstring>

namespace simfs {

namespace {
std::unique_ptr<FS> g_fs;

std::vector<std::string> split(const std::string& p) {
  std::vector<std::string> out;
  size_t i = 0;
  while (i < p.size()) {
    while (i < p.size() && p[i] == '/') i++;
    size_t j = i;
    while (j < p.size() && p[j] != '/') j++;
    if (j > i) out.push_back(p.substr(i, j - i));
    i = j;
  }
  return out;
}

InodeP cloneInode(const InodeP& in) {
  auto out = std::make_shared<Inode>(*in);
  for (auto& e : out->entries) e.second = cloneInode(e.second);
  return out;
}
} // namespace

static std::function<size_t()> g_freadChunk;
size_t freadChunk() { return g_freadChunk ? g_freadChunk() : 0; }
void setFreadChunk(std::function<size_t()> f) { g_freadChunk = std::move(f); }

FS& fs() {
  if (!g_fs) g_fs.reset(new FS());
  return *g_fs;
}
void setFS(std::unique_ptr<FS> f) { g_fs = std::move(f); }
std::unique_ptr<FS> takeFS() { return std::move(g_fs); }

FS::FS() {
  root = std::make_shared<Inode>();
  root->type = Inode::Dir;
  root->mode = 0755;
  root->ino = nextIno++;
  root->nlink = 2;
}

std::unique_ptr<FS> FS::clone() const {
  std::unique_ptr<FS> f(new FS());
  f->root = cloneInode(root);
  f->nextIno = nextIno;
  f->cwd = cwd;
  f->log = log;
  f->actor = actor;
  f->build = build;
  f->readdirSalt = readdirSalt;
  f->clock = clock;
  return f;
}

uint64_t FS::stamp() const {
  if (clock) return clock();
  return sim::tick_ns();
}

void FS::touched(const InodeP& ino) {
  uint64_t t = stamp();
  ino->mtime_ns = t;
  ino->ctime_ns = t;
}

InodeP FS::newInode(Inode::Type t, uint32_t mode) {
  auto n = std::make_shared<Inode>();
  n->type = t;
  n->mode = mode;
  n->ino = nextIno++;
  n->nlink = t == Inode::Dir ? 2 : 1;
  uint64_t s = stamp();
  n->mtime_ns = s;
  n->ctime_ns = s;
  return n;
}

void FS::record(Mutation::Kind k, const std::string& path) {
  Mutation m;
  m.kind = k;
  m.path = path;
  m.actor = actor;
  m.build = build;
  log.push_back(m);
}

bool FS::isSimPath(const char* path) {
  if (!path) return false;
  return strncmp(path, "/sim", 4) == 0 && (path[4] == '/' || path[4] == 0);
}

std::string FS::absolute(const std::string& path) const {
  if (!path.empty() && path[0] == '/') return path;
  if (path.empty()) return "";   // POSIX: an empty pathname never resolves (ENOENT)
  return cwd + "/" + path;
}

int FS::walk(const std::string& abs, bool followLast, InodeP* parentOut, std::string* leafOut, InodeP* out,
             std::string* canon, int depth) const {
  if (depth > 40) return ELOOP;
  auto comps = split(abs);
  if (comps.empty() || comps[0] != "sim") return ENOENT;
  std::vector<std::pair<std::string, InodeP>> stack;
  stack.push_back({"sim", root});
  for (size_t i = 1; i < comps.size(); i++) {
    const std::string& c = comps[i];
    bool last = i + 1 == comps.size();
    if (c == ".") continue;
    InodeP dir = stack.back().second;
    if (dir->type != Inode::Dir) return ENOTDIR;
    if (c == "..") {
      if (stack.size() > 1) stack.pop_back();
      continue;
    }
    auto it = dir->entries.find(c);
    if (it == dir->entries.end()) {
      if (last) {
        if (parentOut) *parentOut = dir;
        if (leafOut) *leafOut = c;
        if (out) *out = nullptr;
        if (canon) {
          std::string s;
          for (auto& e : stack) s += "/" + e.first;
          *canon = s + "/" + c;
        }
      }
      return ENOENT;
    }
    InodeP n = it->second;
    if (n->type == Inode::Symlink && (!last || followLast)) {
      std::string base;
      for (auto& e : stack) base += "/" + e.first;
      std::string rest;
      for (size_t j = i + 1; j < comps.size(); j++) rest += "/" + comps[j];
      std::string target = n->data;
      std::string next = (!target.empty() && target[0] == '/') ? target + rest : base + "/" + target + rest;
      return walk(next, followLast, parentOut, leafOut, out, canon, depth + 1);
    }
    if (last) {
      if (parentOut) *parentOut = dir;
      if (leafOut) *leafOut = c;
    }
    stack.push_back({c, n});
  }
  if (comps.size() == 1 || stack.size() == 1) {
    // path names the root itself
    if (parentOut) *parentOut = nullptr;
    if (leafOut) *leafOut = "";
  }
  if (out) *out = stack.back().second;
  if (canon) {
    std::string s;
    for (auto& e : stack) s += "/" + e.first;
    *canon = s;
  }
  // trailing slash semantics: "file/" is ENOTDIR
  if (!abs.empty() && abs.back() == '/' && stack.back().second->type != Inode::Dir) return ENOTDIR;
  return 0;
}

int FS::lookup(const std::string& path, bool followLast, InodeP* out, std::string* canon) const {
  InodeP n;
  int rc = walk(absolute(path), followLast, nullptr, nullptr, &n, canon, 0);
  if (rc) return rc;
  if (out) *out = n;
  return 0;
}

void FS::fillStat(const InodeP& ino, StatBuf* out) const {
  out->type = ino->type;
  out->ino = ino->ino;
  out->dev = ino->dev;
  out->size = ino->type == Inode::Dir ? 64 + 32 * ino->entries.size() : ino->data.size();
  out->mtime_ns = ino->mtime_ns;
  out->ctime_ns = ino->ctime_ns;
  out->mode = ino->mode;
  out->nlink = ino->nlink;
}

int FS::stat(const std::string& path, bool followLast, StatBuf* out) const {
  InodeP n;
  int rc = lookup(path, followLast, &n);
  if (rc) return rc;
  fillStat(n, out);
  return 0;
}

int FS::createFile(const std::string& path, bool excl, bool trunc, InodeP* out, uint32_t mode) {
  InodeP parent, n;
  std::string leaf, canon;
  int rc = walk(absolute(path), true, &parent, &leaf, &n, &canon, 0);
  if (rc == 0) {
    if (excl) return EEXIST;
    if (n->type == Inode::Dir) return EISDIR;
    if (trunc && !n->data.empty()) {
      n->data.clear();
      touched(n);
      record(Mutation::Truncate, canon);
    } else if (trunc) {
      touched(n);
      record(Mutation::Truncate, canon);
    }
    if (out) *out = n;
    return 0;
  }
  if (rc != ENOENT || !parent) return rc;
  n = newInode(Inode::File, mode);
  parent->entries[leaf] = n;
  touched(parent);
  record(Mutation::Create, canon);
  if (out) *out = n;
  return 0;
}

int FS::writeFile(const std::string& path, const std::string& bytes) {
  InodeP n;
  int rc = createFile(path, false, false, &n);
  if (rc) return rc;
  n->data = bytes;
  touched(n);
  std::string canon;
  lookup(path, true, nullptr, &canon);
  record(Mutation::Write, canon);
  return 0;
}

int FS::readFile(const std::string& path, std::string* out) const {
  InodeP n;
  int rc = lookup(path, true, &n);
  if (rc) return rc;
  if (n->type == Inode::Dir) return EISDIR;
  *out = n->data;
  return 0;
}

int FS::mkdir(const std::string& path, uint32_t mode) {
  InodeP parent, n;
  std::string leaf, canon;
  int rc = walk(absolute(path), false, &parent, &leaf, &n, &canon, 0);
  if (rc == 0) return EEXIST;
  if (rc != ENOENT || !parent) return rc;
  n = newInode(Inode::Dir, mode);
  parent->entries[leaf] = n;
  parent->nlink++;
  touched(parent);
  record(Mutation::Mkdir, canon);
  return 0;
}

int FS::mkdirs(const std::string& path) {
  std::string abs = absolute(path);
  auto comps = split(abs);
  std::string cur;
  for (size_t i = 0; i < comps.size(); i++) {
    cur += "/" + comps[i];
    if (i == 0) continue;
    int rc = mkdir(cur);
    if (rc && rc != EEXIST) return rc;
  }
  return 0;
}

int FS::unlink(const std::string& path) {
  InodeP parent, n;
  std::string leaf, canon;
  int rc = walk(absolute(path), false, &parent, &leaf, &n, &canon, 0);
  if (rc) return rc;
  if (!parent) return EBUSY;
  if (n->type == Inode::Dir) return EISDIR;
  parent->entries.erase(leaf);
  if (n->nlink) n->nlink--;
  touched(parent);
  record(Mutation::Unlink, canon);
  return 0;
}

int FS::rmdir(const std::string& path) {
  InodeP parent, n;
  std::string leaf, canon;
  int rc = walk(absolute(path), false, &parent, &leaf, &n, &canon, 0);
  if (rc) return rc;
  if (!parent) return EBUSY;
  if (n->type != Inode::Dir) return ENOTDIR;
  if (!n->entries.empty()) return ENOTEMPTY;
  parent->entries.erase(leaf);
  parent->nlink--;
  touched(parent);
  record(Mutation::Rmdir, canon);
  return 0;
}

int FS::removeAll(const std::string& path) {
  InodeP n;
  int rc = lookup(path, false, &n);
  if (rc) return rc;
  if (n->type == Inode::Dir) {
    std::vector<std::string> names;
    for (auto& e : n->entries) names.push_back(e.first);
    for (auto& nm : names) {
      rc = removeAll(absolute(path) + "/" + nm);
      if (rc) return rc;
    }
    return rmdir(path);
  }
  return unlink(path);
}

int FS::rename(const std::string& from, const std::string& to) {
  InodeP fp, fn, tp, tn;
  std::string fl, tl, fc, tc;
  int rc = walk(absolute(from), false, &fp, &fl, &fn, &fc, 0);
  if (rc) return rc;
  if (!fp) return EBUSY;
  rc = walk(absolute(to), false, &tp, &tl, &tn, &tc, 0);
  if (rc && rc != ENOENT) return rc;
  if (!tp) return rc ? rc : EBUSY;
  if (rc == 0) {
    if (tn == fn) return 0;
    if (tn->type == Inode::Dir) {
      if (fn->type != Inode::Dir) return EISDIR;
      if (!tn->entries.empty()) return ENOTEMPTY;
      tp->nlink--;
    } else if (fn->type == Inode::Dir) {
      return ENOTDIR;
    }
  }
  fp->entries.erase(fl);
  tp->entries[tl] = fn;
  if (fn->type == Inode::Dir) {
    fp->nlink--;
    tp->nlink++;
  }
  fn->ctime_ns = stamp();
  touched(fp);
  if (tp != fp) touched(tp);
  record(Mutation::Rename, fc + " -> " + tc);
  return 0;
}

int FS::symlink(const std::string& target, const std::string& linkpath) {
  InodeP parent, n;
  std::string leaf, canon;
  int rc = walk(absolute(linkpath), false, &parent, &leaf, &n, &canon, 0);
  if (rc == 0) return EEXIST;
  if (rc != ENOENT || !parent) return rc;
  n = newInode(Inode::Symlink, 0777);
  n->data = target;
  parent->entries[leaf] = n;
  touched(parent);
  record(Mutation::Symlink, canon);
  return 0;
}

int FS::readlink(const std::string& path, std::string* out) const {
  InodeP n;
  int rc = lookup(path, false, &n);
  if (rc) return rc;
  if (n->type != Inode::Symlink) return EINVAL;
  *out = n->data;
  return 0;
}

int FS::truncate(const InodeP& ino, uint64_t size) {
  if (ino->type != Inode::File) return EINVAL;
  ino->data.resize(size);
  touched(ino);
  return 0;
}

int FS::chdir(const std::string& path) {
  InodeP n;
  std::string canon;
  int rc = lookup(path, true, &n, &canon);
  if (rc) return rc;
  if (n->type != Inode::Dir) return ENOTDIR;
  cwd = canon;
  return 0;
}

int FS::listdir(const std::string& path, std::vector<std::string>* names) const {
  InodeP n;
  int rc = lookup(path, true, &n);
  if (rc) return rc;
  if (n->type != Inode::Dir) return ENOTDIR;
  names->clear();
  for (auto& e : n->entries) names->push_back(e.first);
  if (readdirSalt) {
    // deterministic permutation: sort by salted hash of the name
    uint64_t salt = readdirSalt;
    auto h = [salt](const std::string& s) {
      uint64_t x = 1469598103934665603ULL ^ salt;
      for (unsigned char c : s) x = (x ^ c) * 1099511628211ULL;
      return x;
    };
    std::sort(names->begin(), names->end(), [&](const std::string& a, const std::string& b) {
      uint64_t ha = h(a), hb = h(b);
      return ha != hb ? ha < hb : a < b;
    });
  }
  return 0;
}

int FS::realpath(const std::string& path, std::string* out) const {
  InodeP n;
  return lookup(path, true, &n, out);
}

int FS::setMtime(const std::string& path, uint64_t ns) {
  InodeP n;
  int rc = lookup(path, true, &n);
  if (rc) return rc;
  n->mtime_ns = ns;
  std::string canon;
  lookup(path, true, nullptr, &canon);
  record(Mutation::Touch, canon);
  return 0;
}

int FS::replaceInode(const std::string& path) {
  InodeP parent, n;
  std::string leaf, canon;
  int rc = walk(absolute(path), false, &parent, &leaf, &n, &canon, 0);
  if (rc) return rc;
  if (!parent) return EBUSY;
  auto copy = std::make_shared<Inode>(*n);
  copy->ino = nextIno++;
  parent->entries[leaf] = copy;
  return 0;
}

} // namespace simfs
