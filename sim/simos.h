// simos — simulated descriptors, pipes and child processes (DESIGN 2.5), shared by the libc wrappers.
#pragma once
#include "sim/simfs.h"

#include <cstdint>
#include <functional>
#include <map>
#include <memory>
#include <string>
#include <vector>

namespace simos {

const int kFirstFd = 1000000;
const int kFirstPid = 100000;

struct Pipe {
  std::string buf;
  int readers = 0, writers = 0;
  size_t cap = 65536;
};

struct OpenFile {
  simfs::InodeP ino;
  uint64_t off = 0;
  int flags = 0;
  std::string path;
};

struct Fd {
  enum Kind { PipeR, PipeW, File, Null } kind = Null;
  std::shared_ptr<Pipe> pipe;
  std::shared_ptr<OpenFile> file;
  bool cloexec = false;
};

typedef std::map<int, Fd> FdTable;

inline bool isSimFd(int fd) { return fd >= kFirstFd; }

// parent ("this process") descriptor table
FdTable& fds();
int allocFd(const Fd& f);
void retain(const Fd& f);    // a copy of the descriptor came into existence
void release(const Fd& f);   // a copy went away

// ---- child processes
struct Proc;

struct ProcCtx {
  Proc* proc;
  int pid;
  std::vector<std::string> argv;
  std::map<std::string, std::string> env;
  std::string cwd;
  size_t lastAccepted = 0;   // bytes of the last write() that were accepted before it returned
  // All return false once the process has been killed; the program must then return promptly.
  bool write(int fd, const std::string& data, size_t chunk = 0);
  bool sleepUs(uint64_t us);
  bool alive();
  void ignoreSigint(bool on);
  void closeFd(int fd);
  bool hasFd(int fd) const;
  void dieBySignal(int sig);   // like raise(sig) with default disposition: program must return afterwards
  std::string getenv(const std::string& k) const {
    auto it = env.find(k);
    return it == env.end() ? std::string() : it->second;
  }
};

typedef std::function<int(ProcCtx&)> Program;   // returns the exit code

struct Hooks {
  // return an errno to make posix_spawn fail (0: proceed)
  std::function<int(const std::string& path, const std::vector<std::string>& argv)> spawnFault;
  std::function<void(int pid, const std::vector<std::string>& argv, const std::map<std::string, std::string>& env)> onSpawn;
  std::function<void(int pid, int sig, bool delivered)> onSignal;
  std::function<void(int pid, int status)> onExit;
  std::function<void(int pid)> onReap;
  // return an errno to make pipe() fail
  std::function<int()> pipeFault;
  // return true to make this poll()/wait4() call fail with EINTR once
  std::function<bool(const char* call)> eintrFault;
  // maximum number of bytes a single read() on a pipe returns (0: no limit)
  std::function<size_t()> readChunk;
  // RLIMIT_NOFILE override (0: real)
  uint64_t openFileLimit = 0;
};
Hooks& hooks();

void registerProgram(const std::string& path, Program p);
// forget everything (descriptors, processes, programs, hooks): call between runs
void reset();

struct Stats {
  uint64_t spawns = 0, spawnFailures = 0, pipes = 0, pipeFailures = 0, kills = 0, reaps = 0, eintr = 0, polls = 0,
           pipeFullBlocks = 0, bytesPiped = 0, exits = 0, killedBySignal = 0;
};
Stats stats();
int liveProcesses();      // spawned and not yet exited
int unreapedProcesses();  // exited or running, not yet waited for

} // namespace simos
