// small utilities: PRNG, hashing, hex, JSON value with parser/printer
#pragma once
#include <cstdint>
#include <cstdio>
#include <cstdlib>
#include <map>
#include <string>
#include <vector>

namespace util {

struct Rng {
  uint64_t s;
  explicit Rng(uint64_t seed = 1) : s(seed * 0x9e3779b97f4a7c15ULL + 0xda3e39cb94b95bdbULL) {}
  uint64_t next() {
    uint64_t z = (s += 0x9e3779b97f4a7c15ULL);
    z = (z ^ (z >> 30)) * 0xbf58476d1ce4e5b9ULL;
    z = (z ^ (z >> 27)) * 0x94d049bb133111ebULL;
    return z ^ (z >> 31);
  }
  uint64_t below(uint64_t n) { return n ? next() % n : 0; }
  uint64_t range(uint64_t lo, uint64_t hi) { return lo + below(hi - lo + 1); } // inclusive
  bool chance(unsigned permille) { return below(1000) < permille; }
  template <class T> const T& pick(const std::vector<T>& v) { return v[below(v.size())]; }
};

inline uint64_t mix64(uint64_t x) {
  x ^= x >> 33; x *= 0xff51afd7ed558ccdULL; x ^= x >> 33; x *= 0xc4ceb9fe1a85ec53ULL; x ^= x >> 33;
  return x;
}

struct Hasher {
  uint64_t h = 1469598103934665603ULL;
  void bytes(const void* p, size_t n) {
    const unsigned char* c = static_cast<const unsigned char*>(p);
    for (size_t i = 0; i < n; i++) h = (h ^ c[i]) * 1099511628211ULL;
    h = (h ^ 0xff) * 1099511628211ULL; // terminator: ("ab","c") != ("a","bc")
  }
  void str(const std::string& s) { u64(s.size()); bytes(s.data(), s.size()); }
  void u64(uint64_t v) { for (int i = 0; i < 8; i++) h = (h ^ ((v >> (8 * i)) & 0xff)) * 1099511628211ULL; }
  uint64_t get() const { return mix64(h); }
};

inline std::string hex(const std::string& s) {
  static const char* d = "0123456789abcdef";
  std::string o;
  for (unsigned char c : s) { o += d[c >> 4]; o += d[c & 15]; }
  return o;
}
inline std::string unhex(const std::string& s) {
  std::string o;
  auto v = [](char c) { return c <= '9' ? c - '0' : (c | 32) - 'a' + 10; };
  for (size_t i = 0; i + 1 < s.size(); i += 2) o += (char)((v(s[i]) << 4) | v(s[i + 1]));
  return o;
}
// printable rendering for logs (non-printables as \xNN)
inline std::string printable(const std::string& s, size_t max = 48) {
  std::string o;
  for (size_t i = 0; i < s.size() && i < max; i++) {
    unsigned char c = s[i];
    if (c >= 32 && c < 127 && c != '\\' && c != '"') o += (char)c;
    else { char b[8]; snprintf(b, sizeof b, "\\x%02x", c); o += b; }
  }
  if (s.size() > max) o += "...(" + std::to_string(s.size()) + ")";
  return o;
}

// ---- JSON ----
struct Json {
  enum Kind { Null, Bool, Num, Str, Arr, Obj } kind = Null;
  bool b = false;
  int64_t n = 0;
  std::string s;
  std::vector<Json> a;
  std::vector<std::pair<std::string, Json>> o;

  Json() {}
  static Json boolean(bool v) { Json j; j.kind = Bool; j.b = v; return j; }
  static Json num(int64_t v) { Json j; j.kind = Num; j.n = v; return j; }
  static Json str(const std::string& v) { Json j; j.kind = Str; j.s = v; return j; }
  static Json arr() { Json j; j.kind = Arr; return j; }
  static Json obj() { Json j; j.kind = Obj; return j; }

  Json& set(const std::string& k, const Json& v) {
    for (auto& e : o) if (e.first == k) { e.second = v; return *this; }
    o.push_back({k, v}); return *this;
  }
  Json& set(const std::string& k, int64_t v) { return set(k, num(v)); }
  Json& set(const std::string& k, const std::string& v) { return set(k, str(v)); }
  Json& set(const std::string& k, const char* v) { return set(k, str(v)); }
  Json& setb(const std::string& k, bool v) { return set(k, boolean(v)); }
  Json& push(const Json& v) { a.push_back(v); return *this; }
  const Json* find(const std::string& k) const {
    for (auto& e : o) if (e.first == k) return &e.second;
    return nullptr;
  }
  int64_t getn(const std::string& k, int64_t def = 0) const { auto* j = find(k); return j && j->kind == Num ? j->n : (j && j->kind == Bool ? (int64_t)j->b : def); }
  bool getb(const std::string& k, bool def = false) const { auto* j = find(k); return j ? (j->kind == Bool ? j->b : j->n != 0) : def; }
  std::string gets(const std::string& k, const std::string& def = "") const { auto* j = find(k); return j && j->kind == Str ? j->s : def; }
  const std::vector<Json>& geta(const std::string& k) const { static std::vector<Json> e; auto* j = find(k); return j && j->kind == Arr ? j->a : e; }

  std::string dump(int indent = -1) const;
  static bool parse(const std::string& text, Json* out, std::string* err);
};

bool readFile(const std::string& path, std::string* out);
bool writeFile(const std::string& path, const std::string& data);

} // namespace util
