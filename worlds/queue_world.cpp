// World C — the real LaneBasedExecutionQueue / SerialExecutionQueue and Subprocess.cpp over simulated
// children, pipes, signals and clock (DESIGN 4 C16).
#include "worlds/queue_world.h"

#include "sim/detsched.h"
#include "sim/simfs.h"
#include "sim/simos.h"

#include "llbuild/Basic/ExecutionQueue.h"
#include "llvm/ADT/ArrayRef.h"
#include "llvm/ADT/Twine.h"

#include <algorithm>
#include <csignal>
#include <cstring>
#include <memory>
#include <set>

using namespace llbuild;
using namespace llbuild::basic;
using runner::RunResult;
using util::Json;

namespace wc {

namespace {

struct ScriptOp {
  std::string op;   // write | sleep | close_out | release | ignore_int | exit | raise | bad_control
  int64_t n = 0;    // bytes / microseconds / code / signal
  int64_t chunk = 0;
  int fd = 1;
};

struct ProcSpec {
  bool on = false;
  std::vector<ScriptOp> script;
  bool interruptible = true;
  bool control = true;
  bool inheritEnv = true;
  bool unknownProgram = false;  // spawn fails with ENOENT
  int spawnErrno = 0;           // injected spawn failure
  bool pipeFault = false;       // pipe() fails for this launch
  std::vector<std::pair<std::string, std::string>> env;
};

struct JobSpec {
  int id = 0;
  std::string name;
  int64_t durUs = 0;
  bool high = false;
  std::vector<int> adds;   // jobs submitted by this job
  ProcSpec proc;
  bool initial = true;
};

class Desc : public JobDescriptor {
public:
  std::string name;
  int id;
  StringRef getOrdinalName() const override { return name; }
  void getShortDescription(SmallVectorImpl<char>& r) const override { r.append(name.begin(), name.end()); }
  void getVerboseDescription(SmallVectorImpl<char>& r) const override { r.append(name.begin(), name.end()); }
};

struct Run;
Run* g_run = nullptr;

struct Launch {
  int job = 0;
  int pid = -1;
  bool started = false;           // processStarted seen
  int completions = 0;
  ProcessStatus status = ProcessStatus::Unknown;
  int exitCode = 0;
  std::string output;             // concatenated processHadOutput
  bool outputAfterCompletion = false;
  bool spawned = false;
  std::string childWrote;         // bytes the child appended to its stdout/stderr pipe, in order
  bool childExited = false;
  int childStatus = 0;
  bool submittedAfterCancel = false;
  std::vector<std::string> errors;
  uint64_t spawnSeq = 0;
  std::map<std::string, std::string> childEnv;
  bool reaped = false;
  bool gotInt = false, gotKill = false;
  uint64_t exitTimeNs = 0;
  bool aliveAtCancel = false;
};

struct Run : public ExecutionQueueDelegate {
  Json plan;
  std::map<int, JobSpec> jobs;
  std::map<int, std::unique_ptr<Desc>> descs;
  std::string queueKind = "lane";
  int lanes = 2;
  int alg = 0;
  uint64_t openFileLimit = 0;
  bool waitBeforeDestroy = true;
  std::vector<std::string> baseEnv;
  // cancellation
  bool cancelOn = false;
  int cancelAfterStarts = 0;    // cancel once this many jobs have started
  int cancelYields = 0;
  // faults
  int eintrEvery = 0;           // every n-th poll/wait4 is interrupted (0: never)
  int readChunk = 0;

  ExecutionQueue* queue = nullptr;   // raw: must stay valid while its destructor drains jobs
  std::map<int, int> execCount;
  std::map<int, int> finishCount;
  int inFlight = 0, maxInFlight = 0;
  int jobsStarted = 0;
  int outstanding = 0;          // submitted and not yet finished (incl. process completion)
  std::map<int, Launch> launches;   // by job id
  std::map<int, int> pidToJob;
  std::map<uint64_t, int> handleToJob;
  bool cancelIssued = false, cancelReturned = false;
  uint64_t cancelReturnNs = 0;
  uint64_t seq = 0, cancelReturnSeq = 0;
  bool queueDestroyed = false;
  int eintrCounter = 0;
  std::map<int, int> threadJob;   // simulated thread id -> job whose body runs there

  util::Hasher evh;
  std::vector<std::string> log;
  RunResult res;
  bool verdict = false;

  explicit Run(const Json& p) : plan(p) {}

  void ev(const std::string& s) {
    evh.str(s);
    if (log.size() < 4000) log.push_back(s);
    seq++;
  }
  std::string tail(size_t n = 50) {
    std::string o;
    size_t from = log.size() > n ? log.size() - n : 0;
    for (size_t i = from; i < log.size(); i++) o += "  " + log[i] + "\n";
    return o;
  }
  void viol(const std::string& clause, const std::string& detail) {
    if (verdict) return;
    verdict = true;
    res.status = "viol";
    res.clause = clause;
    res.detail = detail + "\n--- last events ---\n" + tail();
  }

  // ---- ExecutionQueueDelegate
  void queueJobStarted(JobDescriptor* d) override {
    inFlight++;
    if (inFlight > maxInFlight) maxInFlight = inFlight;
    ev("job-started " + static_cast<Desc*>(d)->name);
    if (inFlight > lanesBound())
      viol("C16.2", std::to_string(inFlight) + " jobs in flight with " + std::to_string(lanesBound()) + " lanes configured");
  }
  void queueJobFinished(JobDescriptor* d) override {
    inFlight--;
    ev("job-finished " + static_cast<Desc*>(d)->name);
  }
  int lanesBound() const { return queueKind == "serial" ? 1 : lanes; }

  Launch* byHandle(ProcessContext* ctx, ProcessHandle) {
    Desc* d = reinterpret_cast<Desc*>(ctx);
    return &launches[d->id];
  }
  void processStarted(ProcessContext* ctx, ProcessHandle h, llbuild_pid_t pid) override {
    Launch* l = byHandle(ctx, h);
    l->started = true;
    ev("process-started job=" + std::to_string(l->job) + " pid=" + (pid == (llbuild_pid_t)-1 ? std::string("-1") : std::string("p")));
  }
  void processHadError(ProcessContext* ctx, ProcessHandle h, const Twine& message) override {
    Launch* l = byHandle(ctx, h);
    l->errors.push_back(message.str());
    // a protocol error quotes what the child sent, which can be its task identifier - derived from the queue's random
    // build id (std::random_device): keep that out of the event log (found by the 1000-seed determinism gate)
    std::string text = message.str();
    size_t q = text.find("unsupported protocol: ");
    if (q != std::string::npos) text = text.substr(0, q + 20);
    ev("process-error job=" + std::to_string(l->job) + " " + text);
  }
  void processHadOutput(ProcessContext* ctx, ProcessHandle h, StringRef data) override {
    Launch* l = byHandle(ctx, h);
    if (l->completions > 0) l->outputAfterCompletion = true;
    l->output.append(data.data(), data.size());
    ev("process-output job=" + std::to_string(l->job) + " n=" + std::to_string(data.size()));
  }
  void processFinished(ProcessContext* ctx, ProcessHandle h, const ProcessResult& r) override {
    Launch* l = byHandle(ctx, h);
    ev("process-finished job=" + std::to_string(l->job) + " status=" + std::to_string((int)r.status));
  }

  void load();
  void submit(int id);
  void jobBody(int id, QueueJobContext* ctx);
  void execute();
  void finish();
  int childProgram(simos::ProcCtx& c);
};

void Run::load() {
  const Json* cfg = plan.find("config");
  Json empty = Json::obj();
  if (!cfg) cfg = &empty;
  queueKind = cfg->gets("queue", "lane");
  lanes = (int)cfg->getn("lanes", 2);
  if (lanes < 1) lanes = 1;
  alg = (int)cfg->getn("alg");
  openFileLimit = (uint64_t)cfg->getn("open_file_limit");
  waitBeforeDestroy = cfg->getb("wait_before_destroy", true);
  eintrEvery = (int)cfg->getn("eintr_every");
  readChunk = (int)cfg->getn("read_chunk");
  for (auto& e : cfg->geta("base_env")) baseEnv.push_back(e.s);
  if (const Json* c = plan.find("cancel")) {
    cancelOn = c->getb("on");
    cancelAfterStarts = (int)c->getn("after_starts");
    cancelYields = (int)c->getn("yields");
  }
  for (auto& j : plan.geta("jobs")) {
    JobSpec s;
    s.id = (int)j.getn("id");
    if (s.id <= 0) continue;
    s.name = j.gets("name", "job" + std::to_string(s.id));
    s.durUs = j.getn("dur");
    s.high = j.getb("high");
    for (auto& a : j.geta("adds")) s.adds.push_back((int)a.n);
    if (const Json* p = j.find("proc")) {
      s.proc.on = true;
      s.proc.interruptible = p->getb("interruptible", true);
      s.proc.control = p->getb("control", true);
      s.proc.inheritEnv = p->getb("inherit_env", true);
      s.proc.unknownProgram = p->getb("unknown_program");
      s.proc.spawnErrno = (int)p->getn("spawn_errno");
      s.proc.pipeFault = p->getb("pipe_fault");
      for (auto& e : p->geta("env")) s.proc.env.push_back({e.gets("k"), e.gets("v")});
      for (auto& o : p->geta("script")) {
        ScriptOp so;
        so.op = o.gets("op");
        so.n = o.getn("n");
        so.chunk = o.getn("chunk");
        so.fd = (int)o.getn("fd", 1);
        s.proc.script.push_back(so);
      }
    }
    jobs[s.id] = s;
  }
  // jobs only reachable through "adds" are not initial; drop dangling/duplicate references
  std::set<int> added;
  for (auto& e : jobs) {
    std::vector<int> keep;
    for (int a : e.second.adds)
      if (jobs.count(a) && a > e.first && !added.count(a)) {
        keep.push_back(a);
        added.insert(a);
      }
    e.second.adds = keep;
  }
  for (int a : added) jobs[a].initial = false;
  for (auto& e : jobs) {
    auto d = std::unique_ptr<Desc>(new Desc());
    d->name = e.second.name;
    d->id = e.first;
    descs[e.first] = std::move(d);
    if (e.second.proc.on) launches[e.first].job = e.first;
  }
  util::Hasher sh;
  sh.str(queueKind);
  sh.u64((uint64_t)lanes);
  for (auto& e : jobs) {
    sh.u64((uint64_t)e.second.proc.on);
    sh.u64(e.second.proc.script.size());
    sh.u64(e.second.adds.size());
  }
  sh.u64(cancelOn);
  res.shape = sh.get();
}

int Run::childProgram(simos::ProcCtx& c) {
  int job = c.argv.size() > 1 ? atoi(c.argv[1].c_str()) : 0;
  auto it = jobs.find(job);
  if (it == jobs.end()) return 127;
  Launch& l = launches[job];
  l.childEnv = c.env;
  const ProcSpec& ps = it->second.proc;
  int code = 0;
  for (auto& op : ps.script) {
    if (!c.alive()) return 0;
    if (op.op == "write") {
      std::string data;
      data.reserve((size_t)op.n);
      for (int64_t i = 0; i < op.n; i++) data += (char)('a' + (i + job) % 26);
      size_t chunk = op.chunk > 0 ? (size_t)op.chunk : 0;
      // written piecewise so that the exact number of accepted bytes is known when killed
      size_t off = 0;
      int fd = op.fd == 2 ? 2 : 1;
      while (off < data.size()) {
        size_t n = chunk ? std::min(chunk, data.size() - off) : std::min<size_t>(data.size() - off, 4096);
        if (!c.hasFd(fd)) break;
        size_t before = l.childWrote.size();
        (void)before;
        if (!c.write(fd, data.substr(off, n), 0)) {
          // killed while (possibly) blocked on a full pipe: part of the chunk may have been accepted
          l.childWrote.append(data, off, c.lastAccepted);
          return 0;
        }
        l.childWrote.append(data, off, n);
        off += n;
      }
    } else if (op.op == "sleep") {
      if (!c.sleepUs((uint64_t)op.n)) return 0;
    } else if (op.op == "close_out") {
      c.closeFd(1);
      c.closeFd(2);
    } else if (op.op == "release" || op.op == "bad_control") {
      std::string fdtxt = c.getenv("LLBUILD_CONTROL_FD");
      if (!fdtxt.empty()) {
        int cfd = atoi(fdtxt.c_str());
        std::string msg = op.op == "release" ? "llbuild.1\n" + c.getenv("LLBUILD_TASK_ID") + "\n"
                          : op.n == 0       ? std::string("llbuild.2\n")
                          : op.n == 1       ? std::string("llbuild.1\nnot-the-task-id\n")
                                            : std::string(40, 'x');
        if (!c.write(cfd, msg, op.chunk > 0 ? (size_t)op.chunk : 0)) return 0;
      }
    } else if (op.op == "ignore_int") {
      c.ignoreSigint(true);
    } else if (op.op == "exit") {
      code = (int)op.n;
      break;
    } else if (op.op == "raise") {
      c.dieBySignal((int)op.n);
      return 0;
    }
  }
  return code;
}

void Run::jobBody(int id, QueueJobContext* ctx) {
  const JobSpec& js = jobs[id];
  int c = ++execCount[id];
  jobsStarted++;
  ev("job-body " + js.name);
  if (c > 1) viol("C16.1", "job " + js.name + " executed " + std::to_string(c) + " times");
  if (queueDestroyed) viol("C16.1", "job " + js.name + " executed after the queue's destructor returned");
  if (js.durUs) sim::sleep_ns((uint64_t)js.durUs * 1000ULL);
  else sim::yield("job");
  for (int a : js.adds) submit(a);
  if (js.proc.on) {
    Launch& l = launches[id];
    l.submittedAfterCancel = cancelReturned;
    std::vector<std::string> argvS = {js.proc.unknownProgram ? "/sim/bin/missing" : "/sim/bin/child", std::to_string(id)};
    std::vector<StringRef> argv(argvS.begin(), argvS.end());
    std::vector<std::pair<StringRef, StringRef>> env;
    for (auto& e : js.proc.env) env.push_back({StringRef(e.first), StringRef(e.second)});
    ProcessAttributes attrs = {js.proc.interruptible};
    attrs.controlEnabled = js.proc.control;
    attrs.inheritEnvironment = js.proc.inheritEnv;
    ev("execute-process job=" + std::to_string(id));
    threadJob[sim::self_id()] = id;
    Run* self = this;
    ProcessCompletionFn done = [self, id](ProcessResult r) {
      Launch& l2 = self->launches[id];
      l2.completions++;
      l2.status = r.status;
      l2.exitCode = r.exitCode;
      self->ev("process-completion job=" + std::to_string(id) + " status=" + std::to_string((int)r.status));
      if (l2.completions > 1) self->viol("C16.3", "completion callback of job " + std::to_string(id) + " fired " + std::to_string(l2.completions) + " times");
      self->outstanding--;
    };
    queue->executeProcess(ctx, argv, env, attrs, llvm::Optional<ProcessCompletionFn>(done), nullptr);
    // the job body ends here; when the lane was released the completion arrives later
  } else {
    outstanding--;
  }
  finishCount[id]++;
}

void Run::submit(int id) {
  auto it = jobs.find(id);
  if (it == jobs.end()) return;
  outstanding++;
  Run* self = this;
  ev("add-job " + it->second.name);
  queue->addJob(QueueJob(descs[id].get(), [self, id](QueueJobContext* c) { self->jobBody(id, c); }),
                it->second.high ? QueueJobPriority::High : QueueJobPriority::Normal);
}

void Run::execute() {
  load();
  simos::reset();
  simos::Hooks& h = simos::hooks();
  h.openFileLimit = openFileLimit;
  Run* self = this;
  simos::registerProgram("/sim/bin/child", [self](simos::ProcCtx& c) { return self->childProgram(c); });
  h.spawnFault = [self](const std::string&, const std::vector<std::string>& argv) -> int {
    int job = argv.size() > 1 ? atoi(argv[1].c_str()) : 0;
    auto it = self->jobs.find(job);
    if (it != self->jobs.end() && it->second.proc.spawnErrno) {
      self->res.counters["fault_spawn_errno"]++;
      return it->second.proc.spawnErrno;
    }
    return 0;
  };
  h.onSpawn = [self](int pid, const std::vector<std::string>& argv, const std::map<std::string, std::string>& env) {
    int job = argv.size() > 1 ? atoi(argv[1].c_str()) : 0;
    self->pidToJob[pid] = job;
    Launch& l = self->launches[job];
    l.spawned = true;
    l.pid = pid;
    l.childEnv = env;
    l.spawnSeq = self->seq;
    self->ev("spawn job=" + std::to_string(job));
    if (self->cancelReturned)
      self->viol("C16.7", "process for job " + std::to_string(job) + " was started after cancelAllJobs() had returned");
  };
  h.onExit = [self](int pid, int status) {
    int job = self->pidToJob[pid];
    Launch& l = self->launches[job];
    l.childExited = true;
    l.childStatus = status;
    l.exitTimeNs = sim::now_ns();
    self->ev("child-exit job=" + std::to_string(job) + " status=" + std::to_string(status));
  };
  h.onSignal = [self](int pid, int sig, bool delivered) {
    int job = self->pidToJob[pid];
    Launch& l = self->launches[job];
    if (sig == SIGINT) l.gotInt = true;
    if (sig == SIGKILL) l.gotKill = true;
    self->res.counters[sig == SIGINT ? "signals_sigint" : sig == SIGKILL ? "signals_sigkill" : "signals_other"]++;
    self->ev("signal job=" + std::to_string(job) + " sig=" + std::to_string(sig) + (delivered ? "" : " (already exited)"));
  };
  h.onReap = [self](int pid) {
    int job = self->pidToJob[pid];
    self->launches[job].reaped = true;
    self->ev("reap job=" + std::to_string(job));
  };
  // the pipe fault is attached to a specific launch: it fires when that job's executeProcess creates its pipes
  h.pipeFault = [self]() -> int {
    auto tj = self->threadJob.find(sim::self_id());
    if (tj == self->threadJob.end()) return 0;
    auto jt = self->jobs.find(tj->second);
    if (jt != self->jobs.end() && jt->second.proc.pipeFault && !self->launches[tj->second].spawned) {
      self->res.counters["fault_pipe_emfile"]++;
      return EMFILE;
    }
    return 0;
  };
  if (eintrEvery > 0)
    h.eintrFault = [self](const char*) {
      if (++self->eintrCounter % self->eintrEvery == 0) {
        self->res.counters["fault_eintr"]++;
        return true;
      }
      return false;
    };
  if (readChunk > 0) h.readChunk = [self]() { return (size_t)self->readChunk; };

  // environment
  std::vector<const char*> envp;
  for (auto& e : baseEnv) envp.push_back(e.c_str());
  envp.push_back(nullptr);

  sim::set_child_role("queue");
  if (queueKind == "serial") queue = createSerialQueue(*this, envp.data()).release();
  else
    queue = (createLaneBasedExecutionQueue(*this, lanes, alg ? SchedulerAlgorithm::FIFO : SchedulerAlgorithm::NamePriority,
                                              QualityOfService::Normal, envp.data()));
  sim::set_child_role("");

  bool cancellerDone = true;
  if (cancelOn) {
    cancellerDone = false;
    sim::spawn("canceller", [this, &cancellerDone]() {
      sim::block_until([this]() { return jobsStarted >= cancelAfterStarts || outstanding == 0; }, 0, "cancel-gate");
      for (int i = 0; i < cancelYields; i++) sim::yield("canceller");
      if (!queueDestroyed && queue) {
        cancelIssued = true;
        ev("cancel");
        queue->cancelAllJobs();
        // every process is spawned and entered into the process group under the group mutex before the
        // group is closed, so a child still running now was in the group when it was signalled
        for (auto& l : launches)
          if (l.second.spawned && !l.second.childExited) l.second.aliveAtCancel = true;
        cancelReturned = true;
        cancelReturnNs = sim::now_ns();
        cancelReturnSeq = seq;
        ev("cancel-returned");
        res.counters["cancels"]++;
      }
      cancellerDone = true;
    });
  }
  for (auto& e : jobs)
    if (e.second.initial) submit(e.first);
  if (waitBeforeDestroy) sim::block_until([this]() { return outstanding == 0; }, 0, "wait-jobs");
  // the canceller must not touch a destroyed queue
  if (!cancellerDone) sim::block_until([&cancellerDone]() { return cancellerDone; }, 0, "join-canceller");
  ev("destroy-queue");
  delete queue;
  queueDestroyed = true;
  ev("queue-destroyed");
  // a process whose lane was released reports completion from a detached thread, possibly after the
  // queue is gone; "exactly once" has no deadline, so wait for it (never arriving = hang report)
  sim::block_until([this]() { return outstanding <= 0; }, 0, "wait-completions");
  // give detached helper threads (lane release) the chance to run to their end
  finish();
}

void Run::finish() {
  // C16.1 every job exactly once before the destructor returned
  for (auto& e : jobs) {
    int c = execCount.count(e.first) ? execCount[e.first] : 0;
    bool reachable = e.second.initial;
    if (!reachable) {
      // submitted iff its parent ran
      for (auto& p : jobs)
        for (int a : p.second.adds)
          if (a == e.first && execCount.count(p.first)) reachable = true;
    }
    if (reachable && c != 1)
      viol("C16.1", "job " + e.second.name + " was submitted but executed " + std::to_string(c) + " times before the queue was destroyed");
  }
  for (auto& e : launches) {
    Launch& l = e.second;
    const JobSpec& js = jobs[e.first];
    if (!execCount.count(e.first)) continue;
    std::string who = "process of job " + std::to_string(e.first);
    if (l.completions != 1) {
      viol("C16.3", who + ": completion callback fired " + std::to_string(l.completions) + " times");
      continue;
    }
    // expected status from the child's real fate
    ProcessStatus want;
    std::string why;
    if (!l.spawned) {
      if (js.proc.unknownProgram || js.proc.spawnErrno || js.proc.pipeFault) {
        // either the launch failed, or it was refused because of cancellation
        if (l.status != ProcessStatus::Failed && !(l.status == ProcessStatus::Cancelled && cancelIssued))
          viol("C16.4", who + ": spawn/pipe error must be reported as failed, got status " + std::to_string((int)l.status));
        continue;
      }
      want = ProcessStatus::Cancelled;
      why = "never started";
      if (!cancelIssued) {
        viol("C16.4", who + " was never started although nothing failed and nothing was cancelled");
        continue;
      }
    } else {
      if (!l.childExited) {
        viol("C16.9", who + ": completion reported while the child is still running");
        continue;
      }
      int st = l.childStatus;
      if (WIFEXITED(st)) {
        want = WEXITSTATUS(st) == 0 ? ProcessStatus::Succeeded : ProcessStatus::Failed;
        why = "exit code " + std::to_string(WEXITSTATUS(st));
      } else {
        int sig = WTERMSIG(st);
        want = (sig == SIGINT || sig == SIGKILL) ? ProcessStatus::Cancelled : ProcessStatus::Failed;
        why = "signal " + std::to_string(sig);
      }
    }
    if (l.status != want)
      viol("C16.4", who + ": child fate was '" + why + "' but the completion status is " + std::to_string((int)l.status) + " (expected " +
                        std::to_string((int)want) + ")");
    if (l.spawned) {
      if (l.output != l.childWrote)
        viol("C16.5", who + ": delivered output (" + std::to_string(l.output.size()) + " bytes) differs from what the child wrote (" +
                          std::to_string(l.childWrote.size()) + " bytes)");
      if (l.outputAfterCompletion) viol("C16.5", who + ": output delivered after the completion callback");
      if (!l.reaped) viol("C16.9", who + ": child was never reaped");
      // environment precedence: queue-provided ids, then the request's entries (first wins), then the base environment
      std::map<std::string, std::string> want2;
      for (auto& kv : js.proc.env)
        if (!want2.count(kv.first)) want2[kv.first] = kv.second;
      for (auto& kv : want2) {
        if (kv.first == "LLBUILD_BUILD_ID" || kv.first == "LLBUILD_LANE_ID") continue;
        auto it = l.childEnv.find(kv.first);
        if (it == l.childEnv.end() || it->second != kv.second)
          viol("C16.6", who + ": requested environment entry " + kv.first + "=" + kv.second + " not in effect (child saw " +
                            (it == l.childEnv.end() ? std::string("nothing") : it->second) + ")");
      }
      for (auto& be : baseEnv) {
        size_t eq = be.find('=');
        if (eq == std::string::npos) continue;
        std::string k = be.substr(0, eq), v = be.substr(eq + 1);
        if (k.compare(0, 8, "LLBUILD_") == 0) continue;
        auto it = l.childEnv.find(k);
        if (js.proc.inheritEnv) {
          std::string expect = want2.count(k) ? want2[k] : v;
          if (it == l.childEnv.end() || it->second != expect)
            viol("C16.6", who + ": base environment entry " + k + " should be " + expect + " in the child");
        } else if (!want2.count(k) && it != l.childEnv.end()) {
          viol("C16.6", who + ": base environment entry " + k + " leaked into a child launched without inherit-env");
        }
      }
      if (!l.childEnv.count("LLBUILD_LANE_ID") || !l.childEnv.count("LLBUILD_TASK_ID"))
        viol("C16.6", who + ": LLBUILD_LANE_ID / LLBUILD_TASK_ID missing from the child's environment");
      if (js.proc.control && !l.childEnv.count("LLBUILD_CONTROL_FD"))
        viol("C16.6", who + ": control channel enabled but LLBUILD_CONTROL_FD not exported");
      // cancellation: children alive when cancelAllJobs() returned are interrupted (if allowed) and killed within the timeout
      if (l.aliveAtCancel) {
        if (js.proc.interruptible && !l.gotInt && !l.gotKill)
          viol("C16.8", who + " was running when the queue was cancelled but received neither SIGINT nor SIGKILL");
        uint64_t limit = cancelReturnNs + 11ULL * 1000000000ULL;
        if (l.exitTimeNs > limit && !l.gotKill)
          viol("C16.8", who + " outlived the cancellation by more than the kill timeout without receiving SIGKILL");
      }
    }
  }
  if (simos::unreapedProcesses() != 0) viol("C16.9", std::to_string(simos::unreapedProcesses()) + " child process(es) never waited for");
}

void onFatal(sim::EndKind kind, const std::vector<sim::ThreadDump>& threads) {
  Run* r = g_run;
  RunResult out;
  if (!r) {
    out.status = "harness";
    runner::fatal_result(out);
  }
  std::string dump;
  for (auto& t : threads) dump += "  thread " + std::to_string(t.id) + " [" + t.role + "] " + t.state + "\n";
  out = r->res;
  out.evhash = r->evh.get();
  out.decisions = sim::decisions();
  if (!r->verdict) {
    out.status = kind == sim::EndKind::Hang ? "hang" : "livelock";
    bool jobsMissing = false;
    for (auto& e : r->jobs)
      if (e.second.initial && !r->execCount.count(e.first)) jobsMissing = true;
    out.clause = jobsMissing ? "C16.1" : r->queueDestroyed ? "C16.10" : "C16.1";
    out.detail = std::string(kind == sim::EndKind::Hang ? "HANG" : "LIVELOCK") +
                 (jobsMissing ? ": submitted jobs were never executed" : r->queueDestroyed ? ": a thread outlives the queue" : ": jobs never finish / queue cannot be destroyed") + "\n" + dump +
                 "--- last events ---\n" + r->tail();
  }
  runner::fatal_result(out);
}

class QueueWorld : public runner::World {
public:
  void warmup() override {}

  Json generate(uint64_t seed, const runner::GenOptions& opt) override {
    util::Rng rng(seed);
    Json plan = Json::obj();
    plan.set("world", "C").set("property", "C16").set("seed", (int64_t)seed);
    bool thorough = opt.tier == "thorough";
    Json cfg = Json::obj();
    bool serial = rng.chance(250);
    cfg.set("queue", serial ? "serial" : "lane");
    cfg.set("lanes", (int64_t)rng.range(1, 4));
    cfg.set("alg", (int64_t)rng.below(2));
    cfg.set("open_file_limit", rng.chance(200) ? (int64_t)rng.range(8, 20) : 0);
    cfg.setb("wait_before_destroy", rng.chance(600));
    cfg.set("eintr_every", rng.chance(300) ? (int64_t)rng.range(2, 7) : 0);
    cfg.set("read_chunk", rng.chance(300) ? (int64_t)rng.range(1, 5000) : 0);
    cfg.set("policy", (int64_t)rng.below(3));
    static const int sticky[] = {500, 900, 990};
    cfg.set("sticky", sticky[rng.below(3)]);
    cfg.set("pct", (int64_t)rng.range(1, 3));
    cfg.set("sched_seed", (int64_t)(rng.next() >> 2));
    Json be = Json::arr();
    be.push(Json::str("PATH=/sim/bin"));
    be.push(Json::str("BASEVAR=base"));
    if (rng.chance(500)) be.push(Json::str("SHARED=from-base"));
    cfg.set("base_env", be);
    plan.set("config", cfg);

    int nJobs = (int)rng.range(1, thorough ? 30 : 12);
    bool waits = cfg.getb("wait_before_destroy");
    Json jobs = Json::arr();
    int procs = 0;
    for (int i = 1; i <= nJobs; i++) {
      Json j = Json::obj();
      j.set("id", i);
      static const char* names[] = {"a", "b", "c", "m", "z", "k"};
      j.set("name", std::string(names[rng.below(6)]) + std::to_string(i));
      j.set("dur", rng.chance(500) ? (int64_t)rng.below(3000) : 0);
      j.setb("high", rng.chance(150));
      if (waits && rng.chance(200) && i < nJobs) {
        Json adds = Json::arr();
        int na = (int)rng.range(1, 2);
        for (int a = 0; a < na; a++) adds.push(Json::num((int64_t)rng.range(i + 1, nJobs)));
        j.set("adds", adds);
      }
      if (rng.chance(550) && procs < 8) {
        procs++;
        Json p = Json::obj();
        p.setb("interruptible", rng.chance(750));
        p.setb("control", rng.chance(700));
        p.setb("inherit_env", rng.chance(700));
        unsigned roll = (unsigned)rng.below(1000);
        if (roll < 60) p.setb("unknown_program", true);
        else if (roll < 110) p.set("spawn_errno", rng.chance(500) ? 11 /*EAGAIN*/ : 12 /*ENOMEM*/);
        else if (roll < 160) p.setb("pipe_fault", true);
        Json env = Json::arr();
        if (rng.chance(500)) env.push(Json::obj().set("k", "REQVAR").set("v", "req" + std::to_string(i)));
        if (rng.chance(300)) env.push(Json::obj().set("k", "SHARED").set("v", "from-request"));
        if (rng.chance(200)) env.push(Json::obj().set("k", "REQVAR").set("v", "second-loses"));
        if (rng.chance(100)) env.push(Json::obj().set("k", "LLBUILD_TASK_ID").set("v", "custom-task"));
        p.set("env", env);
        Json script = Json::arr();
        int nops = (int)rng.range(0, 5);
        for (int o = 0; o < nops; o++) {
          unsigned r = (unsigned)rng.below(1000);
          Json op = Json::obj();
          if (r < 350) {
            int64_t n = rng.chance(150) ? (int64_t)rng.range(60000, 200000) : (int64_t)rng.below(9000);
            op.set("op", "write").set("n", n).set("chunk", rng.chance(500) ? (int64_t)rng.range(1, 7000) : 0).set("fd", rng.chance(300) ? 2 : 1);
          } else if (r < 600) {
            op.set("op", "sleep").set("n", rng.chance(150) ? (int64_t)rng.range(5000000, 30000000) : (int64_t)rng.below(50000));
          } else if (r < 660) {
            op.set("op", "close_out");
          } else if (r < 800) {
            op.set("op", "release").set("chunk", rng.chance(300) ? (int64_t)rng.range(1, 5) : 0);
          } else if (r < 850) {
            op.set("op", "bad_control").set("n", (int64_t)rng.below(3));
          } else if (r < 920) {
            op.set("op", "ignore_int");
          } else if (r < 970) {
            op.set("op", "raise").set("n", rng.chance(500) ? 15 : rng.chance(500) ? 2 : 6);
          } else {
            op.set("op", "exit").set("n", (int64_t)rng.below(256));
          }
          script.push(op);
        }
        if (rng.chance(500)) script.push(Json::obj().set("op", "exit").set("n", rng.chance(600) ? 0 : (int64_t)rng.range(1, 255)));
        p.set("script", script);
        j.set("proc", p);
      }
      jobs.push(j);
    }
    plan.set("jobs", jobs);
    Json c = Json::obj();
    c.setb("on", rng.chance(450));
    c.set("after_starts", (int64_t)rng.below((uint64_t)nJobs + 1));
    c.set("yields", (int64_t)rng.below(40));
    plan.set("cancel", c);
    return plan;
  }

  RunResult execute(const Json& plan) override {
    Run run(plan);
    g_run = &run;
    sim::set_fatal_handler(onFatal);
    simfs::setFS(std::unique_ptr<simfs::FS>(new simfs::FS()));
    const Json* cfg = plan.find("config");
    sim::SchedConfig sc;
    if (cfg) {
      sc.seed = (uint64_t)cfg->getn("sched_seed", 1);
      sc.policy = (int)cfg->getn("policy", sim::POLICY_STICKY);
      sc.stickyPermille = (int)cfg->getn("sticky", 900);
      sc.pctDepth = (int)cfg->getn("pct", 2);
    }
    if (plan.find("decisions")) {
      sc.useReplay = true;
      for (auto& d : plan.geta("decisions")) sc.replay.push_back((uint32_t)d.n);
    }
    // the livelock cap is a budget of scheduling steps: a child that writes 170 KiB read back two bytes at a time needs
    // a few hundred thousand of them legitimately (thorough tier found this as a "livelock")
    {
      uint64_t rchunk = cfg ? (uint64_t)cfg->getn("read_chunk") : 0;
      for (auto& j : plan.geta("jobs"))
        if (const Json* pr = j.find("proc"))
          for (auto& op : pr->geta("script"))
            if (op.gets("op") == "write") {
              // the child writes `chunk` bytes at a time, the queue reads `read_chunk` at a time: the smaller one decides
              uint64_t n = (uint64_t)op.getn("n"), wchunk = (uint64_t)op.getn("chunk");
              uint64_t c = wchunk && rchunk ? std::min(wchunk, rchunk) : wchunk ? wchunk : rchunk;
              if (c > 0) sc.maxSteps += n / c * 16;
            }
    }
    sim::begin(sc);
    sim::set_role("main");
    uint64_t t0 = sim::now_ns();
    run.execute();
    sim::end();
    if (getenv("VSIM_TRACE"))
      for (auto& l : run.log) fprintf(stderr, "  %s\n", l.c_str());
    run.res.simtime_us = (sim::now_ns() - t0) / 1000;
    run.res.evhash = run.evh.get();
    run.res.ihash = sim::interleaving_hash();
    run.res.steps = sim::steps();
    run.res.decisions = sim::decisions();
    auto st = sim::stats();
    auto os = simos::stats();
    auto& c = run.res.counters;
    c["sched_switches"] += st.switches;
    c["sched_threads"] += st.threads;
    c["sched_time_jumps"] += st.timeJumps;
    c["spawns"] += os.spawns;
    c["spawn_failures"] += os.spawnFailures;
    c["pipes"] += os.pipes;
    c["kills"] += os.kills;
    c["reaps"] += os.reaps;
    c["pipe_full_blocks"] += os.pipeFullBlocks;
    c["bytes_piped"] += os.bytesPiped;
    c["children_killed_by_signal"] += os.killedBySignal;
    c["jobs"] += run.jobs.size();
    c["max_in_flight_" + std::to_string(run.maxInFlight)]++;
    int released = 0;
    for (auto& l : run.launches)
      for (auto& op : run.jobs[l.first].proc.script)
        if (op.op == "release" && l.second.spawned) released++;
    c["lane_releases_attempted"] += (uint64_t)released;
    run.res.nontrivial = os.spawns > 0 && run.jobs.size() > 1;
    run.res.sample = "queue=" + run.queueKind + " lanes=" + std::to_string(run.lanes) + " jobs=" + std::to_string(run.jobs.size()) +
                     " procs=" + std::to_string(run.launches.size()) + " cancel=" + (run.cancelOn ? "1" : "0");
    c["leaked_descriptors"] += simos::fds().size();
    simos::reset();
    g_run = nullptr;
    return run.res;
  }
};

} // namespace

runner::World* makeQueueWorld() { return new QueueWorld(); }

} // namespace wc
