#pragma once
#include "sim/runner.h"
namespace wb {
runner::World* makeBsWorld(const std::string& property);
}
