#pragma once
#include "sim/runner.h"
#include "worlds/engine_model.h"

namespace wa {

struct EngineFeatures {
  int minKeys = 3, maxKeys = 10;
  int minOps = 3, maxOps = 8;
  bool dyn = true, disc = true, single = true, follow = true, collapse = true, force = true;
  bool invalidate = true, restart = true, resig = true, reprog = true;
  bool cycles = false;
  int cyclePermille = 0;
  bool cancel = false;
  int cancelPermille = 0;
  int dbPermille = 700;
  int asyncPermille = 0;      // chance that a run uses asynchronous completion for all rules (half of it per rule otherwise)
  bool hostileKeys = true;    // NUL / non-UTF-8 / long spellings
  bool numericKeys = false;   // numeric-looking spellings (SQLite affinity)
  bool hostileValues = true;
  bool clientVersions = false; // histories change the database's client schema version
  bool lockout = false;        // a second engine tries to use the database during a build; foreign schema versions; attach without recreate
};

struct EngineGen {
  static util::Json generate(uint64_t seed, const runner::GenOptions& opt, const EngineFeatures& f);
};

EngineFeatures featuresFor(const std::string& property, const runner::GenOptions& opt);

runner::World* makeEngineWorld(const std::string& property);

} // namespace wa
