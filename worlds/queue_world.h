#pragma once
#include "sim/runner.h"
namespace wc {
runner::World* makeQueueWorld();
}
