// C13 — the real LocalFileSystem, DeviceAgnosticFileSystem, ChecksumOnlyFileSystem, FileInfo and FileChecksum
// over the simulated file system, which can produce file states a real one will not give on demand
// (same size + same mtime + different content, inode replaced with everything else equal, all-zero stat).
#include "worlds/fileinfo_world.h"

#include "sim/detsched.h"
#include "sim/simfs.h"

#include "llbuild/Basic/FileInfo.h"
#include "llbuild/Basic/FileSystem.h"

#include <memory>
#include <set>

using namespace llbuild::basic;
using runner::RunResult;
using util::Json;

namespace wf {
namespace {

struct State {
  int type = 0;   // 0 missing, 1 file, 2 dir, 3 symlink (to a file next to it)
  std::string content;
};

const char* modeName[] = {"default", "device-agnostic", "checksum-only"};

std::unique_ptr<FileSystem> makeFs(int mode) {
  auto local = createLocalFileSystem();
  if (mode == 1) return DeviceAgnosticFileSystem::from(std::move(local));
  if (mode == 2) return ChecksumOnlyFileSystem::from(std::move(local));
  return local;
}

void materialise(const std::string& path, const State& s) {
  auto& F = simfs::fs();
  F.removeAll(path);
  if (s.type == 1) F.writeFile(path, s.content);
  else if (s.type == 2) {
    F.mkdirs(path);
    if (!s.content.empty()) F.writeFile(path + "/child", s.content);
  } else if (s.type == 3) {
    F.writeFile(path + ".target", s.content);
    F.symlink(path + ".target", path);
  }
}

class FileInfoWorld : public runner::World {
public:
  Json generate(uint64_t seed, const runner::GenOptions& opt) override {
    util::Rng rng(seed);
    Json plan = Json::obj();
    plan.set("world", "F").set("property", "C13").set("seed", (int64_t)seed);
    plan.set("read_chunk", rng.chance(400) ? (int64_t)rng.range(1, 5000) : 0);
    Json cases = Json::arr();
    int n = (int)rng.range(4, opt.tier == "thorough" ? 40 : 16);
    for (int i = 0; i < n; i++) {
      Json c = Json::obj();
      int type = (int)rng.below(4);
      size_t len = rng.chance(200) ? (size_t)rng.range(16000, 70000) : rng.chance(100) ? 0 : (size_t)rng.below(200);   // empty objects are common in practice
      std::string content;
      // text, or binary with NUL bytes (object files, images), or a leading NUL
      int alphabet = (int)rng.below(3);
      for (size_t k = 0; k < len; k++)
        content += alphabet == 0 ? (char)('a' + rng.below(26)) : rng.chance(150) ? '\0' : (char)rng.below(256);
      if (alphabet == 2 && !content.empty()) content[0] = '\0';
      c.set("type", type).set("content", util::hex(content));
      // mutation between the two observations
      static const char* kinds[] = {"none", "content-same-size", "content-other-size", "mtime-only", "inode-only", "retype", "delete", "create",
                                    "content-same-size-same-mtime", "inode-and-mtime", "zero-stat"};
      c.set("mutation", kinds[rng.below(11)]);
      c.set("newtype", (int64_t)rng.below(4));
      cases.push(c);
    }
    plan.set("cases", cases);
    return plan;
  }

  RunResult execute(const Json& plan) override {
    RunResult res;
    simfs::setFS(std::unique_ptr<simfs::FS>(new simfs::FS()));
    auto& F = simfs::fs();
    F.mkdirs("/sim/f");
    size_t chunk = (size_t)plan.getn("read_chunk");
    if (chunk) simfs::setFreadChunk([chunk]() { return chunk; });
    else simfs::setFreadChunk(nullptr);
    util::Hasher evh;
    int idx = 0;
    int distinctKinds = 0;
    std::set<std::string> kindsSeen;
    for (auto& c : plan.geta("cases")) {
      idx++;
      State a;
      a.type = (int)c.getn("type");
      a.content = util::unhex(c.gets("content"));
      std::string mut = c.gets("mutation");
      std::string path = "/sim/f/p" + std::to_string(idx);
      for (int mode = 0; mode < 3; mode++) {
        auto fs = makeFs(mode);
        materialise(path, a);
        // link information (lstat-based) is an observation too: of the link itself for a symbolic link, and of the object
        // for anything else
        bool link = a.type == 3 ? (idx % 2 == 0) : (idx % 4 == 0);
        FileInfo before = link ? fs->getLinkInfo(path) : fs->getFileInfo(path);
        // ---- the mutation
        State b = a;
        bool sameExistence = true, sameSize = true, sameMtime = true, sameIno = true, sameContent = true, sameType = true, applicable = true;
        std::string target = a.type == 3 && !link ? path + ".target" : path;   // what the observation looks at
        simfs::InodeP ino;
        bool exists = F.lookup(target, !link, &ino) == 0;
        if (mut == "none") {
        } else if (mut == "content-same-size" || mut == "content-same-size-same-mtime") {
          if (!exists || ino->type != simfs::Inode::File || ino->data.empty()) applicable = false;
          else {
            uint64_t oldM = ino->mtime_ns;
            std::string d = ino->data;
            size_t at = idx % 3 == 0 ? d.size() - 1 : idx % 3 == 1 ? d.size() / 2 : 0;
            d[at] = d[at] == 'z' ? 'y' : 'z';
            ino->data = d;
            F.touched(ino);
            sameContent = false;
            sameMtime = false;
            if (mut == "content-same-size-same-mtime") {
              ino->mtime_ns = oldM;
              sameMtime = true;
            }
          }
        } else if (mut == "content-other-size") {
          if (!exists || ino->type != simfs::Inode::File) applicable = false;
          else {
            ino->data += "more";
            F.touched(ino);
            sameContent = sameSize = sameMtime = false;
          }
        } else if (mut == "mtime-only") {
          if (!exists) applicable = false;
          else {
            ino->mtime_ns = sim::tick_ns() + 5;
            sameMtime = false;
          }
        } else if (mut == "inode-only" || mut == "inode-and-mtime") {
          if (!exists || (a.type == 3 && !link)) applicable = false;
          else {
            F.replaceInode(target);
            sameIno = false;
            if (mut == "inode-and-mtime") {
              simfs::InodeP n2;
              F.lookup(target, !link, &n2);
              n2->mtime_ns = sim::tick_ns() + 7;
              sameMtime = false;
            }
          }
        } else if (mut == "retype") {
          b.type = (int)c.getn("newtype");
          // a followed symlink to a file IS a file as far as the observation goes
          auto eff = [](int t) { return t == 3 ? 1 : t; };
          if (b.type == a.type || (link && a.type == 3) || (!link && eff(b.type) == eff(a.type))) applicable = false;
          else {
            materialise(path, b);
            sameType = false;
            sameExistence = (a.type == 0) == (b.type == 0);
            sameIno = sameMtime = false;
            sameSize = false; // unknown in general: decided below from the observations
          }
        } else if (mut == "delete") {
          if (a.type == 0) applicable = false;
          else {
            F.removeAll(path);
            if (a.type == 3) F.removeAll(path + ".target");
            sameExistence = false;
          }
        } else if (mut == "create") {
          if (a.type != 0) applicable = false;
          else {
            b.type = 1;
            materialise(path, b);
            sameExistence = false;
          }
        } else if (mut == "zero-stat") {
          // an existing object whose stat fields are all zero (exotic file systems): must not look "missing"
          if (!exists || link) applicable = false;
          else {
            ino->zeroStat = true;
          }
        }
        if (!applicable) continue;
        kindsSeen.insert(mut);
        FileInfo after = link ? fs->getLinkInfo(path) : fs->getFileInfo(path);
        bool equal = before == after;
        evh.str(mut);
        evh.u64((uint64_t)mode);
        evh.u64(equal);
        res.counters[std::string("pairs_") + modeName[mode]]++;
        std::string who = std::string("mode ") + modeName[mode] + ", " + (a.type == 0 ? "missing" : a.type == 1 ? "file" : a.type == 2 ? "directory" : link ? "symlink (link info)" : "symlink (followed)") + (link && a.type != 3 ? " (link info)" : "") +
                          ", mutation " + mut + " (case " + std::to_string(idx) + ")";
        auto viol = [&](const std::string& clause, const std::string& msg) {
          if (res.failed()) return;
          res.status = "viol";
          res.clause = clause;
          res.detail = who + ": " + msg;
        };
        if (mut == "zero-stat") {
          // An all-zero stat (st_mode == 0 included) is outside the statement's file states - every real object has
          // type bits - but the default and device-agnostic modes carry an explicit guard for it, which is checked.
          // Checksum-only mode zeroes the timestamp after the guard ran; that is counted, not judged.
          if (after.isMissing() && mode == 2) res.counters["observed_checksum_only_all_zero_stat_reads_as_missing"]++;
          else if (after.isMissing()) viol("C13.3", "an existing object was reported with the all-zero 'missing' record");
          ino->zeroStat = false;
          continue;
        }
        bool nowExists = F.lookup(path, !link, nullptr) == 0;
        if (nowExists && after.isMissing()) viol("C13.3", "an existing object was reported with the all-zero 'missing' record");
        if (!nowExists && !after.isMissing() && mode == 0) viol("C13.3", "a missing object was not reported as missing");
        if (mut == "none") {
          if (!equal) viol("C13.2", "two observations of an untouched path compare unequal");
          continue;
        }
        if (mut == "retype") {
          // size equality is whatever the two objects happen to have
          sameSize = before.size == after.size;
        }
        bool mustDiffer, mustEqual;
        if (mode == 0) {
          mustDiffer = !sameExistence || !sameSize || !sameMtime || !sameIno;
          mustEqual = false;
        } else if (mode == 1) {
          mustDiffer = !sameExistence || !sameSize || !sameMtime;
          mustEqual = sameExistence && sameSize && sameMtime && sameContent && sameType;   // only the inode changed
        } else {
          mustDiffer = !sameExistence || !sameType || !sameSize || !sameContent;
          mustEqual = sameExistence && sameType && sameSize && sameContent;               // timestamps and inodes do not count
        }
        if (mustDiffer && equal) viol("C13.1", "the two observations differ in a way this mode must detect, but compare equal");
        if (mustEqual && !equal) viol("C13.2", "the two observations differ only in ways this mode ignores, but compare unequal");
      }
    }
    simfs::setFreadChunk(nullptr);
    res.evhash = evh.get();
    res.nontrivial = kindsSeen.size() >= 3;
    util::Hasher sh;
    for (auto& k : kindsSeen) sh.str(k);
    sh.u64(plan.geta("cases").size());
    res.shape = evh.get() ^ sh.get();
    res.sample = "cases=" + std::to_string(plan.geta("cases").size()) + " read_chunk=" + std::to_string(chunk);
    (void)distinctKinds;
    return res;
  }
};

} // namespace

runner::World* makeFileInfoWorld() { return new FileInfoWorld(); }

} // namespace wf
