// World D — `llbuild ninja build` in-process (commands::executeNinjaBuildCommand: manifest loader, its own
// build values and validity rules, engine, database, lane queue, Subprocess) over the simulated file system
// and simulated processes (DESIGN 4 C18).
#include "worlds/ninja_world.h"
#include "worlds/bs_model.h"

#include "sim/detsched.h"
#include "sim/simfs.h"
#include "sim/simos.h"
#include "sim/simvfs.h"

#include "NinjaBuildCommand.h"

#include <algorithm>
#include <cerrno>
#include <csignal>
#include <cstring>
#include <memory>

using runner::RunResult;
using util::Json;

namespace wd {
namespace {

const char* kWork = "/sim/n";

struct Stmt {
  std::string name;                       // passed on the command line, identifies the statement for the tool
  bool phony = false;
  std::vector<std::string> outs, explicitIns, implicitIns, orderOnly;
  bool depfile = false;
  bool readsOrd = false;   // (with depfile) the tool reads its order-only inputs and lists them in the depfile: the generated-header idiom
  bool restat = false, generator = false;
  bool rsp = false;                       // the command takes its inputs from a response file the driver writes
  int pool = 0;                           // 0: none, n: depth n
  uint64_t salt = 0;
  Json toJson() const {
    Json j = Json::obj();
    auto lst = [](const std::vector<std::string>& v) {
      Json a = Json::arr();
      for (auto& s : v) a.push(Json::str(s));
      return a;
    };
    j.set("name", name).setb("phony", phony).set("outs", lst(outs)).set("explicit", lst(explicitIns)).set("implicit", lst(implicitIns));
    if (readsOrd) j.setb("reads_orderonly", true);
    j.set("orderonly", lst(orderOnly)).setb("depfile", depfile).setb("restat", restat).setb("generator", generator).setb("rsp", rsp).set("pool", pool).set("salt", (int64_t)salt);
    return j;
  }
  static Stmt fromJson(const Json& j) {
    Stmt s;
    auto lst = [](const std::vector<Json>& a) {
      std::vector<std::string> v;
      for (auto& e : a) v.push_back(e.s);
      return v;
    };
    s.name = j.gets("name");
    s.phony = j.getb("phony");
    s.outs = lst(j.geta("outs"));
    s.explicitIns = lst(j.geta("explicit"));
    s.implicitIns = lst(j.geta("implicit"));
    s.orderOnly = lst(j.geta("orderonly"));
    s.depfile = j.getb("depfile");
    s.readsOrd = j.getb("reads_orderonly");
    s.restat = j.getb("restat");
    s.generator = j.getb("generator");
    s.rsp = j.getb("rsp");
    s.pool = (int)j.getn("pool");
    s.salt = (uint64_t)j.getn("salt");
    return s;
  }
  // the tool's view of the statement
  wb::Cmd asCmd() const {
    wb::Cmd c;
    c.name = name;
    c.inputs = explicitIns;
    c.inputs.insert(c.inputs.end(), implicitIns.begin(), implicitIns.end());
    c.outputs = outs;
    c.salt = salt;
    if (depfile) {
      c.deps = outs[0] + ".d";
      c.style = "makefile";
    }
    return c;
  }
  std::string commandLine() const {
    std::string s = "/sim/bin/cc " + name + " -s " + std::to_string(salt) + " --";
    if (rsp) return s + " @" + outs[0] + ".rsp|" + [this] { std::string r; for (auto& i : explicitIns) r += " " + i; return r; }();
    for (auto& i : explicitIns) s += " " + i;
    return s;
  }
};

struct Manifest {
  std::vector<Stmt> stmts;
  std::vector<std::string> defaults;
  static Manifest fromJson(const Json& j) {
    Manifest m;
    std::set<std::string> produced, names;
    for (auto& s : j.geta("stmts")) {
      Stmt st = Stmt::fromJson(s);
      if (st.name.empty() || !names.insert(st.name).second) continue;
      std::vector<std::string> outs;
      for (auto& o : st.outs)
        if (produced.insert(o).second) outs.push_back(o);
      st.outs = outs;
      if (st.outs.empty()) continue;
      m.stmts.push_back(st);
    }
    for (auto& d : j.geta("defaults"))
      if (produced.count(d.s)) m.defaults.push_back(d.s);
    return m;
  }
  Json toJson() const {
    Json j = Json::obj();
    Json a = Json::arr();
    for (auto& s : stmts) a.push(s.toJson());
    j.set("stmts", a);
    Json d = Json::arr();
    for (auto& s : defaults) d.push(Json::str(s));
    j.set("defaults", d);
    return j;
  }
  const Stmt* producer(const std::string& p) const {
    for (auto& s : stmts)
      for (auto& o : s.outs)
        if (o == p) return &s;
    return nullptr;
  }
  const Stmt* byName(const std::string& n) const {
    for (auto& s : stmts)
      if (s.name == n) return &s;
    return nullptr;
  }
  bool regenStmt = false;   // 'build build.ninja: ccgen manifest.in' - the manifest is itself a product
  std::string text() const {
    std::string t = "# generated\nrule cc\n  command = /sim/bin/cc $name -s $salt -- $in\n  description = CC $out\n";
    t += "rule ccdep\n  command = /sim/bin/cc $name -s $salt -- $in\n  depfile = $dep\n  deps = gcc\n";
    t += "rule ccdep2\n  command = /sim/bin/cc $name -s $salt -- $in\n  depfile = $dep\n";   // depfile alone implies deps = gcc
    t += "rule ccrestat\n  command = /sim/bin/cc $name -s $salt -- $in\n  restat = 1\n";
    t += "rule ccgen\n  command = /sim/bin/cc $name -s $salt -- $in\n  generator = 1\n";
    t += "rule ccrsp\n  command = /sim/bin/cc $name -s $salt -- @$rsp\n  rspfile = $rsp\n  rspfile_content = $in\n";
    t += "pool p1\n  depth = 1\npool p2\n  depth = 2\n";
    for (auto& s : stmts) {
      t += "build";
      for (auto& o : s.outs) t += " " + o;
      t += ": ";
      if (s.phony) t += "phony";
      else t += s.depfile ? (s.salt % 2 ? "ccdep" : "ccdep2") : s.restat ? "ccrestat" : s.generator ? "ccgen" : s.rsp ? "ccrsp" : "cc";
      for (auto& i : s.explicitIns) t += " " + i;
      if (!s.implicitIns.empty()) {
        t += " |";
        for (auto& i : s.implicitIns) t += " " + i;
      }
      if (!s.orderOnly.empty()) {
        t += " ||";
        for (auto& i : s.orderOnly) t += " " + i;
      }
      t += "\n";
      if (!s.phony) {
        t += "  name = " + s.name + "\n  salt = " + std::to_string(s.salt) + "\n";
        if (s.pool == 3) t += "  pool = console\n";
        else if (s.pool) t += "  pool = p" + std::to_string(s.pool) + "\n";
        if (s.depfile) t += "  dep = " + s.outs[0] + ".d\n";
        if (s.rsp) t += "  rsp = " + s.outs[0] + ".rsp\n";
      }
    }
    if (regenStmt) t += "build build.ninja: ccgen manifest.in\n  name = REGEN\n  salt = 0\n";
    if (!defaults.empty()) {
      t += "default";
      for (auto& d : defaults) t += " " + d;
      t += "\n";
    }
    return t;
  }
};

struct FileState {
  bool exists = false;
  uint64_t ino = 0, mtime = 0, size = 0;
  bool operator==(const FileState& o) const { return exists == o.exists && ino == o.ino && mtime == o.mtime && size == o.size; }
  bool operator!=(const FileState& o) const { return !(*this == o); }
};

struct Rec {
  enum { Never, Ok, Invalid, Unknown };
  int status = Never;
  std::set<std::string> produced;   // inputs that had a producing statement when this was recorded
  std::map<std::string, std::string> seenCmd;   // producer's command line behind each produced input, as last seen
  std::string cmdline;
  std::map<std::string, FileState> ins, outs;
  std::vector<std::string> discovered;
  std::map<std::string, std::string> aliasDefs;   // phony aliases on the way to the inputs: their input lists as last seen
};

struct Run;
Run* g_run = nullptr;

struct Run {
  Json plan;
  Manifest man;
  bool manDirty = true;
  int jobs = 2;
  bool useDb = true;
  bool regenerate = true;
  bool regenStmt = false;
  int regenerations = 0;
  int keepGoing = -1;   // -k N (-1: not passed, the default of 1 applies; 0: never stop)
  int buildNo = 0;
  std::map<std::string, std::string> failFlags;
  std::map<std::string, Rec> recs;
  struct Exec {
    int build;
    std::string name;
    bool ok;
  };
  std::vector<Exec> execs;
  util::Hasher evh;
  std::vector<std::string> log;
  RunResult res;
  bool verdict = false;
  int restatKept = 0;
  int rspProblems = 0, rspReads = 0;
  std::string predictionDump;
  int nullBuilds = 0, orderOnlyEdits = 0, failures = 0, manifestEdits = 0, skipped = 0;

  explicit Run(const Json& p) : plan(p) {}
  void ev(const std::string& s) {
    evh.str(s);
    if (log.size() < 5000) log.push_back("[" + std::to_string(buildNo) + "] " + s);
  }
  std::string tail(size_t n = 60) {
    std::string o;
    size_t from = log.size() > n ? log.size() - n : 0;
    for (size_t i = from; i < log.size(); i++) o += "  " + log[i] + "\n";
    return o;
  }
  void viol(const std::string& clause, const std::string& detail) {
    if (verdict) return;
    verdict = true;
    res.status = "viol";
    res.clause = clause;
    res.detail = detail + "\n--- model of this invocation ---\n" + predictionDump + "--- last events ---\n" + tail();
  }
  std::string abs(const std::string& p) const { return !p.empty() && p[0] == '/' ? p : std::string(kWork) + "/" + p; }
  FileState stateOf(const std::string& p) {
    FileState s;
    simfs::StatBuf sb;
    if (simfs::fs().stat(abs(p), true, &sb) != 0) return s;
    s.exists = true;
    s.ino = sb.ino;
    s.mtime = sb.mtime_ns;
    s.size = sb.size;
    return s;
  }
  bool readSim(const std::string& p, std::string* out) {
    simfs::InodeP ino;
    if (simfs::fs().lookup(abs(p), true, &ino) != 0 || ino->type != simfs::Inode::File) return false;
    *out = ino->data;
    return true;
  }

  // the explicit and implicit inputs of a statement with phony aliases replaced by what they stand for
  std::vector<std::string> effectiveInputs(const Stmt& st, std::vector<const Stmt*>* aliases = nullptr) const {
    std::vector<std::string> out, work;
    for (auto* lst : {&st.explicitIns, &st.implicitIns})
      for (auto& i : *lst) work.push_back(i);
    for (size_t w = 0; w < work.size() && w < 256; w++) {
      const Stmt* p = man.producer(work[w]);
      if (p && p->phony) {
        if (aliases) aliases->push_back(p);
        for (auto* lst : {&p->explicitIns, &p->implicitIns})
          for (auto& i : *lst) work.push_back(i);
      } else if (std::find(out.begin(), out.end(), work[w]) == out.end()) {
        out.push_back(work[w]);
      }
    }
    return out;
  }

  static std::string aliasDef(const Stmt& a) {
    std::string d;
    for (auto& i : a.explicitIns) d += i + " ";
    d += "|";
    for (auto& i : a.implicitIns) d += i + " ";
    d += "|";
    for (auto& i : a.orderOnly) d += i + " ";
    return d;
  }
  // what the tool sees of a statement: inputs that are phony aliases are not files and are not read
  wb::Cmd cmdFor(const Stmt& st) const {
    wb::Cmd c = st.asCmd();
    std::vector<std::string> keep;
    for (auto& i : c.inputs) {
      const Stmt* p = man.producer(i);
      if (!(p && p->phony)) keep.push_back(i);
    }
    c.inputs = keep;
    if (st.readsOrd && st.depfile)
      for (auto& i : st.orderOnly) {
        const Stmt* p = man.producer(i);
        if (p && !p->phony && std::find(c.inputs.begin(), c.inputs.end(), i) == c.inputs.end()) c.extra.push_back(i);
      }
    return c;
  }

  std::map<std::string, std::pair<bool, std::string>> memo;
  bool expected(const std::string& path, std::string* out) {
    auto m = memo.find(path);
    if (m != memo.end()) {
      *out = m->second.second;
      return m->second.first;
    }
    const Stmt* p = man.producer(path);
    if (!p || p->phony) return readSim(path, out);
    wb::Cmd c = cmdFor(*p);
    wb::ReadFn rd = [this, &c](const std::string& q, std::string* o) -> bool {
      bool mine = std::find(c.inputs.begin(), c.inputs.end(), q) != c.inputs.end() || std::find(c.extra.begin(), c.extra.end(), q) != c.extra.end();
      if (mine && man.producer(q) && !man.producer(q)->phony) return expected(q, o);
      return readSim(q, o);
    };
    wb::ToolResult tr = wb::toolCompute(c, rd);
    for (size_t i = 0; i < p->outs.size(); i++) memo[p->outs[i]] = {tr.ok, tr.ok ? tr.outputs[i] : std::string()};
    *out = memo[path].second;
    return tr.ok;
  }

  void reach(const std::vector<std::string>& nodes, std::vector<const Stmt*>* order) {
    std::set<std::string> seen;
    std::function<void(const std::string&)> visit = [&](const std::string& n) {
      const Stmt* p = man.producer(n);
      if (!p || !seen.insert(p->name).second) return;
      for (auto& i : p->explicitIns) visit(i);
      for (auto& i : p->implicitIns) visit(i);
      for (auto& i : p->orderOnly) visit(i);
      order->push_back(p);
    };
    for (auto& n : nodes) visit(n);
  }

  // /bin/sh -c "<command>" — the only shell construct the generated manifests use is a plain word list
  int shProgram(simos::ProcCtx& c) {
    if (c.argv.size() < 3) return 127;
    std::vector<std::string> words;
    std::string cur;
    for (char ch : c.argv[2]) {
      if (ch == ' ') {
        if (!cur.empty()) words.push_back(cur);
        cur.clear();
      } else {
        cur += ch;
      }
    }
    if (!cur.empty()) words.push_back(cur);
    if (words.size() < 2 || words[0] != "/sim/bin/cc") {
      c.write(2, "sh: unsupported command\n");
      return 127;
    }
    std::string name = words[1];
    if (name == "REGEN") {
      ev("tool-start REGEN");
      std::string text;
      if (simfs::fs().readFile(c.cwd + "/manifest.in", &text) != 0) return 1;
      simfs::fs().writeFile(c.cwd + "/build.ninja", text);
      execs.push_back({buildNo, "REGEN", true});
      ev("tool-end REGEN ok");
      return 0;
    }
    const Stmt* st = man.byName(name);
    ev("tool-start " + name);
    if (!st) return 3;
    if (!c.alive()) return 0;
    std::string mode = failFlags.count(name) ? failFlags[name] : "";
    if (mode == "exit") {
      execs.push_back({buildNo, name, false});
      ev("tool-end " + name + " failed");
      c.write(2, "simulated failure\n");
      return 1;
    }
    if (mode == "signal" || mode == "sigkill") {
      execs.push_back({buildNo, name, false});
      ev("tool-end " + name + " " + mode);
      c.dieBySignal(mode == "sigkill" ? SIGKILL : SIGSEGV);   // SIGKILL: from outside the build (nobody cancelled anything)
      return 0;
    }
    if (st->rsp) {
      // the driver writes the response file before the command runs (and removes it after success)
      std::string want, have;
      for (size_t i = 0; i < st->explicitIns.size(); i++) want += (i ? " " : "") + st->explicitIns[i];
      if (simfs::fs().readFile(c.cwd + "/" + st->outs[0] + ".rsp", &have) != 0 || have != want) {
        execs.push_back({buildNo, name, false});
        ev("tool-end " + name + " failed (response file missing or wrong: " + util::printable(have, 60) + ")");
        rspProblems++;
        c.write(2, "bad response file\n");
        return 5;
      }
      rspReads++;
    }
    wb::Cmd cmd = cmdFor(*st);
    wb::ReadFn rd = [&c](const std::string& p, std::string* out) -> bool {
      std::string full = !p.empty() && p[0] == '/' ? p : c.cwd + "/" + p;
      simfs::InodeP ino;
      if (simfs::fs().lookup(full, true, &ino) != 0 || ino->type != simfs::Inode::File) return false;
      *out = ino->data;
      return true;
    };
    wb::ToolResult tr = wb::toolCompute(cmd, rd);
    if (!tr.ok) {
      execs.push_back({buildNo, name, false});
      ev("tool-end " + name + " failed (" + tr.error + ")");
      c.write(2, tr.error + "\n");
      return 2;
    }
    for (size_t i = 0; i < st->outs.size(); i++) {
      std::string full = c.cwd + "/" + st->outs[i];
      simfs::fs().mkdirs(full.substr(0, full.rfind('/')));
      std::string have;
      bool same = st->restat && simfs::fs().readFile(full, &have) == 0 && have == tr.outputs[i];
      if (!same) simfs::fs().writeFile(full, tr.outputs[i]);
      else restatKept++;
      if (!c.alive()) return 0;
    }
    if (st->depfile) {
      std::vector<std::string> listed = tr.discovered;
      std::string text = wb::renderMakefileDeps(st->outs[0], listed, (int)(st->salt % 8));
      simfs::fs().writeFile(c.cwd + "/" + st->outs[0] + ".d", text);
    }
    execs.push_back({buildNo, name, true});
    ev("tool-end " + name + " ok");
    c.write(1, "built " + name + "\n");
    return 0;
  }

  void load() {
    const Json* cfg = plan.find("config");
    Json empty = Json::obj();
    if (!cfg) cfg = &empty;
    jobs = (int)cfg->getn("jobs", 2);
    useDb = cfg->getb("db", true);
    regenerate = cfg->getb("regenerate", true);
    regenStmt = regenerate && cfg->getb("regen_stmt", false);
    keepGoing = (int)cfg->getn("keep_going", -1);
    if (const Json* m = plan.find("manifest")) man = Manifest::fromJson(*m);
    man.regenStmt = regenStmt;
    simfs::fs().mkdirs(kWork);
    for (auto& s : plan.geta("sources")) simfs::fs().writeFile(abs(s.gets("path")), util::unhex(s.gets("content")));
    util::Hasher sh;
    sh.u64(man.stmts.size());
    for (auto& s : man.stmts) {
      sh.u64(s.explicitIns.size());
      sh.u64(s.implicitIns.size());
      sh.u64(s.orderOnly.size());
      sh.u64(s.depfile);
      sh.u64(s.phony);
    }
    for (auto& j : plan.geta("history")) sh.str(j.gets("op"));
    sh.u64(useDb);
    res.shape = sh.get();
  }

  void opBuild(const Json& op) {
    if (manDirty) {
      if (man.regenStmt) {
        // the manifest is generated: edits go to its source; the very first time both exist (a configured build tree)
        bool first = !stateOf("build.ninja").exists;
        simfs::fs().writeFile(std::string(kWork) + "/manifest.in", man.text());
        if (first) simfs::fs().writeFile(std::string(kWork) + "/build.ninja", man.text());
      } else {
        simfs::fs().writeFile(std::string(kWork) + "/build.ninja", man.text());
      }
      manDirty = false;
    }
    std::vector<std::string> targets;
    for (auto& t : op.geta("targets")) targets.push_back(t.s);
    std::vector<std::string> roots = targets;
    if (roots.empty()) roots = man.defaults;
    if (roots.empty()) {
      // ninja's rule: every output nobody consumes
      std::set<std::string> consumed;
      for (auto& s : man.stmts) {
        for (auto& i : s.explicitIns) consumed.insert(i);
        for (auto& i : s.implicitIns) consumed.insert(i);
        for (auto& i : s.orderOnly) consumed.insert(i);
      }
      for (auto& s : man.stmts)
        for (auto& o : s.outs)
          if (!consumed.count(o)) roots.push_back(o);
    }
    // targets must exist in the manifest (the driver calls exit() otherwise)
    for (auto& t : targets)
      if (!man.producer(t)) return;
    if (roots.empty()) return;
    buildNo++;
    memo.clear();
    ev("build-begin");
    std::vector<const Stmt*> order;
    reach(roots, &order);
    // ---- prediction.  N: certainly not, Y: certainly, M: either (not judged)
    enum Tri { N = 0, Y = 1, M = 2 };
    predictionDump.clear();
    auto or3 = [](Tri a, Tri b) { return a == Y || b == Y ? Y : (a == M || b == M ? M : N); };
    std::map<std::string, Tri> pRun, pFail, pChanged, pValue, pOwn;   // pChanged: output files change; pValue: the stored result changes
    std::map<std::string, Tri> pathChanged, pathValue;   // per output, where it differs from the statement's
    std::map<std::string, bool> ownFlagFail;
    int flagFailCandidates = 0;
    auto realProducers = [&](const std::string& path, std::vector<const Stmt*>* out, bool* viaPhony) {
      std::vector<std::string> work = {path};
      for (size_t w = 0; w < work.size() && w < 64; w++) {
        const Stmt* p = man.producer(work[w]);
        if (!p) continue;
        if (!p->phony) {
          out->push_back(p);
          continue;
        }
        *viaPhony = true;
        for (auto* lst : {&p->explicitIns, &p->implicitIns, &p->orderOnly})
          for (auto& i : *lst) work.push_back(i);
      }
    };
    for (const Stmt* s : order) {
      if (s->phony) {
        Tri f = N;
        for (auto* lst : {&s->explicitIns, &s->implicitIns, &s->orderOnly})
          for (auto& i : *lst) {
            const Stmt* p = man.producer(i);
            if (p) f = or3(f, pFail[p->name]);
            else if (!stateOf(i).exists && lst != &s->orderOnly) f = Y;
          }
        pRun[s->name] = N;
        pFail[s->name] = f;
        pChanged[s->name] = M;
        pValue[s->name] = M;
        continue;
      }
      Rec* r = recs.count(s->name) ? &recs[s->name] : nullptr;
      int status = !useDb ? Rec::Never : r ? r->status : Rec::Never;
      Tri upFail = N, upChanged = N, upValue = N, ordFail = N;
      bool missing = false, producerSetChanged = false;
      std::vector<const Stmt*> aliases;
      std::vector<std::string> eff = effectiveInputs(*s, &aliases);
      for (auto* a : aliases) upFail = or3(upFail, pFail[a->name]);
      for (auto& i : eff) {
        const Stmt* p = man.producer(i);
        if (!p) {
          if (!stateOf(i).exists) missing = true;
        } else {
          upFail = or3(upFail, pFail[p->name]);
          upChanged = or3(upChanged, pathChanged.count(i) ? pathChanged[i] : pChanged[p->name]);
          upValue = or3(upValue, pathValue.count(i) ? pathValue[i] : pValue[p->name]);
          // built in an invocation that did not reach this statement: its stored result may differ from the one seen here
          if (r && recs.count(p->name) && r->seenCmd.count(i) && r->seenCmd[i] != recs[p->name].cmdline) upValue = or3(upValue, M);
        }
        if (r && status != Rec::Never && r->produced.count(i) != (p ? 1u : 0u)) producerSetChanged = true;
      }
      // a discovered input that another statement produces (an order-only input the tool read and listed in its depfile)
      // changes when that statement runs in this invocation
      if (r && status == Rec::Ok)
        for (auto& d : r->discovered) {
          const Stmt* p = man.producer(d);
          if (!p || p->phony) continue;
          upChanged = or3(upChanged, pathChanged.count(d) ? pathChanged[d] : pChanged[p->name]);
          upValue = or3(upValue, pathValue.count(d) ? pathValue[d] : pValue[p->name]);
          // ... or ran, with another command line, in an invocation that did not reach this statement
          if (recs.count(p->name) && r->seenCmd.count(d) && r->seenCmd[d] != recs[p->name].cmdline) upValue = or3(upValue, M);
        }
      // an alias whose own input list was edited since this statement last ran has another value now: whether that alone
      // re-runs its consumers is not prescribed (ninja would look at the files only)
      if (r && status == Rec::Ok)
        for (auto* a : aliases) {
          auto it = r->aliasDefs.find(a->name);
          if (it == r->aliasDefs.end() || it->second != aliasDef(*a)) {
            upChanged = or3(upChanged, M);
            upValue = or3(upValue, M);
          }
        }
      // an alias with nothing behind it (and no file of that name) always propagates
      for (auto* a : aliases)
        if (a->explicitIns.empty() && a->implicitIns.empty() && !stateOf(a->outs[0]).exists) upChanged = or3(upChanged, Y);
      for (auto& i : s->orderOnly) {
        std::vector<const Stmt*> ps;
        bool viaPhony = false;
        realProducers(i, &ps, &viaPhony);
        for (auto* p : ps) ordFail = or3(ordFail, pFail[p->name]);
      }
      // Outside the default -k 1 a failure does not cancel the build, and llbuild only *waits* for order-only inputs: a
      // command whose order-only input failed then runs (ninja would not run it).  -k is not among the configurations the
      // property quantifies over, so this is counted and not judged.
      if (keepGoing >= 0 && ordFail != N) ordFail = M;
      // update-if-newer: all that decides for a generator statement nothing is remembered about
      auto olderThanInputs = [&]() {
        uint64_t newest = 0;
        for (auto& i : eff) newest = std::max(newest, stateOf(i).mtime);
        for (auto& o : s->outs) {
          FileState os = stateOf(o);
          if (!os.exists || os.mtime < newest) return true;
        }
        return false;
      };
      bool stateChanged = false;
      if (r && status == Rec::Ok) {
        if (r->cmdline != s->commandLine() && !s->generator) stateChanged = true;
        for (auto& o : s->outs)
          if (!stateOf(o).exists) stateChanged = true;
        for (auto& i : eff)
          if (!r->ins.count(i) || stateOf(i) != r->ins[i]) stateChanged = true;
        for (auto& d : r->discovered)
          if (!r->ins.count(d) || stateOf(d) != r->ins[d]) stateChanged = true;
      }
      Tri own;
      if (status == Rec::Unknown) own = M;
      else if (status == Rec::Never || status == Rec::Invalid) own = s->generator ? (olderThanInputs() ? Y : N) : Y;
      else own = stateChanged ? Y : producerSetChanged ? M : N;
      // a command with a depfile runs whenever its task does; any other one is brought up to date without running while its outputs
      // are not older than its inputs
      // ... and whether a changed stored result alone (new command hash upstream, files left alone by restat) re-runs such a
      // command is llbuild's business: one extra run that the statement neither demands nor forbids - not judged
      Tri run = or3(own, upChanged);
      if (s->depfile && run == N && upValue != N) run = M;
      // ... the same for any command whose task is made to run that way while an output is older than an input - which
      // happens after restat left that output alone in an earlier run (ninja would have recorded the newer time)
      if (!s->depfile && run == N && upValue != N && status == Rec::Ok && olderThanInputs()) run = M;
      if (s->generator && status != Rec::Ok && own == N && upChanged == M) run = M;
      pOwn[s->name] = own;
      Tri fail = N, changed = N, value = N;
      if (missing || upFail == Y) {
        run = N;
        fail = Y;
      } else if (upFail == M) {
        run = run == N ? N : M;
        fail = M;
        changed = M;
        value = M;
      } else if (ordFail != N && run != N) {
        // the failure cancelled the build before this statement's turn
        if (ordFail == Y && run == Y) {
          run = N;
          fail = Y;
        } else {
          run = M;
          fail = M;
          changed = M;
          value = M;
        }
      } else if (failFlags.count(s->name)) {
        fail = run;
        changed = run;
        value = run;
        ownFlagFail[s->name] = run != N;
        if (run != N) flagFailCandidates++;
      } else {
        changed = run;
        value = status == Rec::Ok ? run : status == Rec::Unknown ? M : Y;
        if (run != N && s->restat) {
          // an output the tool leaves alone does not change for its consumers
          for (auto& o : s->outs) {
            std::string want, have;
            if (expected(o, &want) && readSim(o, &have) && want == have) {
              pathChanged[o] = N;
              // the stored result equals the one before if the command line did too; after a failed or skipped attempt it
              // depends on which result each consumer saw last (a consumer outside the previous targets saw the old one)
              pathValue[o] = status == Rec::Ok && r ? (r->cmdline == s->commandLine() ? N : value) : M;
            }
          }
        }
      }
      static const char* tn[] = {"N", "Y", "M"};
      predictionDump += "  " + s->name + ": status=" + std::to_string(status) + " own=" + tn[own] + " stateChanged=" + (stateChanged ? "1" : "0") + " upFile=" + tn[upChanged] +
                        " upValue=" + tn[upValue] + " upFail=" + tn[upFail] + " ordFail=" + tn[ordFail] + " -> run=" + tn[run] + " fail=" + tn[fail] + " changed=" + tn[changed] +
                        " value=" + tn[value] + "\n";
      pRun[s->name] = run;
      pFail[s->name] = fail;
      pChanged[s->name] = changed;
      pValue[s->name] = value;
    }
    bool certainFailure = false, possibleFailure = false;
    for (const Stmt* s : order) {
      if (pFail[s->name] == Y) certainFailure = true;
      if (pFail[s->name] != N) possibleFailure = true;
    }

    // the manifest itself, when it is a product: a generator statement, re-made iff older than its source
    bool predictRegen = false;
    if (man.regenStmt) {
      FileState mi = stateOf("manifest.in"), bn = stateOf("build.ninja");
      predictRegen = !bn.exists || bn.mtime < mi.mtime;
    }

    // ---- the invocation
    size_t execFrom = execs.size();
    std::vector<std::string> args = {"-C", kWork, "--jobs", std::to_string(jobs)};
    if (!useDb) args.push_back("--no-db");
    if (!regenerate) args.push_back("--no-regenerate");
    if (keepGoing >= 0) {
      args.push_back("-k");
      args.push_back(std::to_string(keepGoing));
    }
    if (getenv("VSIM_NINJA_TRACE")) {
      args.push_back("--trace");
      args.push_back("/sim/trace-" + std::to_string(buildNo) + ".txt");
    }
    for (auto& t : targets) args.push_back(t);
    int rc;
    {
      runner::Silence quiet;
      sim::set_child_role("ninja");
      rc = llbuild::commands::executeNinjaBuildCommand(args);
      sim::set_child_role("");
    }
    simfs::useSimCwd(false);
    if (getenv("VSIM_NINJA_TRACE")) {
      std::string t;
      if (simfs::fs().readFile("/sim/trace-" + std::to_string(buildNo) + ".txt", &t) == 0) fprintf(stderr, "=== engine trace of invocation %d ===\n%s\n", buildNo, t.c_str());
    }
    ev("build-end rc=" + std::to_string(rc));
    res.counters["invocations"]++;
    bool ok = rc == 0;
    if (ok) res.counters["invocations_ok"]++;

    std::set<std::string> ran, ranOk;
    for (size_t i = execFrom; i < execs.size(); i++) {
      if (ran.count(execs[i].name)) viol("C18.6", "command " + execs[i].name + " was executed twice in one invocation");
      ran.insert(execs[i].name);
      if (execs[i].ok) ranOk.insert(execs[i].name);
    }
    res.counters["commands_executed"] += ran.size();
    if (man.regenStmt) {
      bool did = ran.count("REGEN") > 0;
      if (did) regenerations++;
      if (predictRegen && !did) viol("C18.3", "the manifest was not regenerated although its source is newer");
      if (!predictRegen && did) viol("C18.2", "the manifest was regenerated although its source did not change");
      ran.erase("REGEN");
      ranOk.erase("REGEN");
    }
    std::set<std::string> failed;
    for (auto& n : ran)
      if (!ranOk.count(n)) failed.insert(n);
    bool failing = !ok || !failed.empty();
    if (failing) failures++;
    // ---- failures: dependents do not start, the invocation reports failure, the command is retried
    if (!failed.empty()) {
      if (ok) viol("C18.5", "the invocation reported success although a command failed");
      std::set<std::string> tainted = failed;
      bool grew = true;
      while (grew) {
        grew = false;
        for (auto& s : man.stmts) {
          if (tainted.count(s.name)) continue;
          for (auto* lst : {&s.explicitIns, &s.implicitIns, &s.orderOnly}) {
            if (lst == &s.orderOnly && keepGoing >= 0) {
              // (see above: observed, not judged)
              for (auto& i : *lst) {
                const Stmt* p = man.producer(i);
                if (p && tainted.count(p->name) && ran.count(s.name)) res.counters["observed_order_only_dependent_ran_after_a_failure_under_-k"]++;
              }
              continue;
            }
            for (auto& i : *lst) {
              const Stmt* p = man.producer(i);
              if (p && tainted.count(p->name) && tainted.insert(s.name).second) grew = true;
            }
          }
        }
      }
      for (auto& t : tainted)
        if (!failed.count(t) && ran.count(t)) viol("C18.5", "command " + t + " ran although a command it depends on failed in this invocation");
    }
    if (certainFailure && ok) viol("C18.5", "the invocation reported success although a command on the way to the target must fail");
    if (flagFailCandidates == 1)
      for (auto& e : ownFlagFail)
        if (e.second && pRun[e.first] == Y && !ran.count(e.first)) viol("C18.5", "command " + e.first + " failed before and was not retried");
    if (!ok && failed.empty() && !possibleFailure) viol("C18.1", "the invocation failed (rc=" + std::to_string(rc) + ") although nothing was made to fail");

    if (rspProblems) viol("C18.1", "a command found its response file missing or with the wrong contents");
    if (ok) {
      for (const Stmt* s : order)
        if (s->rsp && !s->phony && stateOf(s->outs[0] + ".rsp").exists && ranOk.count(s->name))
          viol("C18.1", "response file of " + s->name + " was left behind after the command succeeded");
      for (const Stmt* s : order) {
        if (s->phony) continue;
        for (auto& o : s->outs) {
          std::string want, got;
          bool wok = expected(o, &want);
          bool gok = readSim(o, &got);
          if (!wok) continue;
          if (!gok) viol("C18.1", "after a successful invocation output " + o + " of " + s->name + " does not exist");
          else if (got != want) viol("C18.1", "after a successful invocation output " + o + " of " + s->name + " differs from a clean build's");
          res.counters["outputs_compared"]++;
        }
      }
    }
    // ---- executed set vs. model (only with the database: without it nothing is remembered between invocations)
    bool anyRan = !ran.empty();
    for (const Stmt* s : order) {
      if (s->phony) continue;
      bool did = ran.count(s->name) > 0;
      Tri want = pRun[s->name];
      if (!did) skipped++;
      if (want == M) res.counters["statements_not_judged"]++;
      if (!useDb && !s->generator) continue;
      if (want == Y && !did && !failing)
        viol("C18.3", "command " + s->name + " was not re-run although its command line, an explicit/implicit/discovered input or an output changed, or a producer of an input re-ran");
      if (want == N && did && pFail[s->name] == N)
        viol("C18.2", "command " + s->name + " was re-run although nothing it depends on changed (order-only inputs and unrelated edits must not trigger)");
    }
    if (useDb && !anyRan && buildNo > 1 && !failing) nullBuilds++;
    // ---- what the next invocation starts from
    // in a failing invocation: statements whose task the engine certainly or possibly started (in dependency order - a task is
    // started as soon as the stored result of one of its inputs changes, also to "failed" or "skipped")
    std::set<std::string> touchedInFailing;
    if (failing)
      for (const Stmt* s : order) {
        bool t = ran.count(s->name) || pOwn[s->name] != N || pRun[s->name] != N || pFail[s->name] != N;
        if (!s->phony && recs.count(s->name) && recs[s->name].status != Rec::Ok) t = true;
        std::vector<const Stmt*> al;
        std::vector<std::string> deps = effectiveInputs(*s, &al);
        // ... a discovered input with a producer (an order-only input named by the depfile) is an input like any other here
        if (!s->phony && recs.count(s->name))
          for (auto& d : recs[s->name].discovered) deps.push_back(d);
        for (auto& i : deps) {
          const Stmt* ip = man.producer(i);
          if (ip && touchedInFailing.count(ip->name)) t = true;
        }
        if (!al.empty()) t = true;
        if (t) touchedInFailing.insert(s->name);
      }
    if (failing) {
      // an alias this invocation reached may have been recorded as skipped; statements *outside* the targets that depend on it
      // meet the change later
      std::set<std::string> reachedAliases, reached;
      for (const Stmt* s : order) {
        reached.insert(s->name);
        if (s->phony) reachedAliases.insert(s->name);
      }
      for (auto& st : man.stmts) {
        if (st.phony || reached.count(st.name) || !recs.count(st.name)) continue;
        std::vector<const Stmt*> al;
        std::vector<std::string> eff = effectiveInputs(st, &al);
        for (auto* a : al)
          if (reachedAliases.count(a->name) && recs[st.name].status == Rec::Ok) recs[st.name].status = Rec::Unknown;
        // the same for an ordinary producer this invocation reached and did not leave as it was: its stored result went to
        // "failed"/"skipped" and will come back; the engine compares epochs, so a consumer outside the targets re-runs
        // (if it cannot be brought up to date by timestamps) although the files it reads are the same again
        for (auto& d : recs[st.name].discovered) eff.push_back(d);
        for (auto& i : eff) {
          const Stmt* ip = man.producer(i);
          if (!ip || !reached.count(ip->name)) continue;
          bool producerTouched = touchedInFailing.count(ip->name) > 0;
          if (producerTouched && recs[st.name].status == Rec::Ok) recs[st.name].status = Rec::Unknown;
        }
      }
    }
    for (const Stmt* s : order) {
      if (s->phony) continue;
      bool fresh = false;
      if (ranOk.count(s->name)) fresh = true;
      else if (ran.count(s->name)) {
        recs[s->name].status = Rec::Invalid;
      } else if (!failing) {
        fresh = true;   // everything reachable is up to date with the present state after a successful invocation
      } else {
        Rec& r = recs[s->name];
        bool untouched = r.status == Rec::Ok && pOwn[s->name] == N && pRun[s->name] == N && pFail[s->name] == N;
        // an alias is re-evaluated in every invocation; in one that a failure cancelled it may have been recorded as skipped,
        // and whoever depends on it then sees its result change back in the next invocation
        if (touchedInFailing.count(s->name)) untouched = false;
        if (untouched) {
        } else if (!s->generator && pOwn[s->name] == Y) r.status = Rec::Invalid;
        else r.status = Rec::Unknown;
      }
      if (fresh) {
        Rec r;
        r.status = Rec::Ok;
        r.cmdline = s->commandLine();
        if (s->generator && recs.count(s->name) && recs[s->name].status == Rec::Ok && !ranOk.count(s->name)) r.cmdline = recs[s->name].cmdline;
        {
          std::vector<const Stmt*> als;
          effectiveInputs(*s, &als);
          for (auto* a : als) r.aliasDefs[a->name] = aliasDef(*a);
        }
        for (auto& i : effectiveInputs(*s)) {
          r.ins[i] = stateOf(i);
          if (const Stmt* ip = man.producer(i)) {
            r.produced.insert(i);
            if (!ip->phony && recs.count(ip->name)) r.seenCmd[i] = recs[ip->name].cmdline;
          }
        }
        for (auto& o : s->outs) r.outs[o] = stateOf(o);
        if (s->depfile) {
          if (ranOk.count(s->name)) {
            wb::Cmd c = cmdFor(*s);
            wb::ReadFn rd = [this](const std::string& p, std::string* out) { return readSim(p, out); };
            wb::ToolResult tr = wb::toolCompute(c, rd);
            r.discovered = tr.discovered;
          } else if (recs.count(s->name)) {
            r.discovered = recs[s->name].discovered;
          }
          for (auto& d : r.discovered) {
            r.ins[d] = stateOf(d);
            const Stmt* dp = man.producer(d);
            if (dp && !dp->phony && recs.count(dp->name)) r.seenCmd[d] = recs[dp->name].cmdline;
          }
        }
        recs[s->name] = r;
      }
    }
  }

  void execute() {
    load();
    simos::reset();
    Run* self = this;
    simos::registerProgram("/bin/sh", [self](simos::ProcCtx& c) { return self->shProgram(c); });
    // failure mode "spawn": posix_spawn of the statement's shell fails
    simos::hooks().spawnFault = [self](const std::string&, const std::vector<std::string>& argv) -> int {
      if (argv.size() < 3) return 0;
      for (auto& f : self->failFlags) {
        if (f.second != "spawn") continue;
        if (argv[2].compare(0, 13 + f.first.size(), "/sim/bin/cc " + f.first + " ") == 0 || argv[2] == "/sim/bin/cc " + f.first) {
          self->res.counters["spawn_failures_injected"]++;
          self->ev("spawn-refused " + f.first);
          self->execs.push_back({self->buildNo, f.first, false});   // an attempt that failed, as far as the oracles go
          static const int errs[] = {EAGAIN, ENOMEM, EACCES};
          return errs[self->buildNo % 3];
        }
      }
      return 0;
    };
    for (auto& op : plan.geta("history")) {
      std::string kind = op.gets("op");
      if (kind == "build") opBuild(op);
      else if (kind == "edit") {
        // an edit of an existing source; a file appearing where an #include found nothing is not an edit
        if (!stateOf(op.gets("path")).exists) continue;
        simfs::fs().writeFile(abs(op.gets("path")), util::unhex(op.gets("content")));
        ev("edit " + op.gets("path"));
      } else if (kind == "delete") {
        simfs::fs().removeAll(abs(op.gets("path")));
        ev("delete " + op.gets("path"));
      } else if (kind == "manifest") {
        if (const Json* m = op.find("manifest")) {
          man = Manifest::fromJson(*m);
          man.regenStmt = regenStmt;
          manDirty = true;
          manifestEdits++;
          ev("edit-manifest " + op.gets("kind"));
        }
      } else if (kind == "fail") {
        failFlags[op.gets("name")] = op.gets("mode", "exit");
        ev("fail-flag " + op.gets("name"));
      } else if (kind == "unfail_all") {
        failFlags.clear();
        ev("unfail-all");
      }
    }
  }
};

void onFatal(sim::EndKind kind, const std::vector<sim::ThreadDump>& threads) {
  Run* r = g_run;
  RunResult out;
  if (!r) {
    out.status = "harness";
    runner::fatal_result(out);
  }
  runner::unsilence();
  std::string dump;
  for (auto& t : threads) dump += "  thread " + std::to_string(t.id) + " [" + t.role + "] " + t.state + "\n";
  out = r->res;
  out.evhash = r->evh.get();
  out.decisions = sim::decisions();
  if (!r->verdict) {
    out.status = kind == sim::EndKind::Hang ? "hang" : "livelock";
    out.clause = "C18.hang";
    out.detail = std::string(kind == sim::EndKind::Hang ? "HANG" : "LIVELOCK") + " during invocation " + std::to_string(r->buildNo) + "\n" + dump + "--- last events ---\n" + r->tail();
  }
  runner::fatal_result(out);
}

class NinjaWorld : public runner::World {
public:
  void warmup() override { simvfs::install(); }

  Json generate(uint64_t seed, const runner::GenOptions& opt) override {
    util::Rng rng(seed);
    Json plan = Json::obj();
    plan.set("world", "D").set("property", "C18").set("seed", (int64_t)seed);
    Json cfg = Json::obj();
    cfg.set("jobs", (int64_t)rng.range(1, 4));
    cfg.setb("db", rng.chance(850));
    bool regen = rng.chance(600);
    cfg.setb("regenerate", regen);
    cfg.setb("regen_stmt", regen && rng.chance(400));
    // -k N is not generated: the property quantifies over job counts and the database, not over failure tolerance, and with
    // N != 1 llbuild's driver runs dependents of a failed command in two ways ninja does not (DESIGN 4 C18, "Observed
    // outside the quantifier").  The executor still honours "keep_going" in a hand-written plan.
    cfg.set("keep_going", (int64_t)-1);
    cfg.set("policy", (int64_t)rng.below(3));
    static const int sticky[] = {500, 900, 990};
    cfg.set("sticky", sticky[rng.below(3)]);
    cfg.set("pct", (int64_t)rng.range(1, 3));
    cfg.set("sched_seed", (int64_t)(rng.next() >> 2));
    plan.set("config", cfg);
    uint64_t counter = 1;
    std::map<std::string, std::string> sources;
    std::vector<std::string> hdrs, srcs, products;
    int nh = (int)rng.range(0, 3);
    for (int i = 0; i < nh; i++) {
      hdrs.push_back("h" + std::to_string(i) + ".h");
      sources[hdrs.back()] = "// hdr v" + std::to_string(counter++) + "\n";
    }
    int ns = (int)rng.range(1, 4);
    for (int i = 0; i < ns; i++) {
      srcs.push_back("s" + std::to_string(i) + ".c");
      std::string c = "// src v" + std::to_string(counter++) + "\n";
      for (auto& h : hdrs)
        if (rng.chance(400)) c += "#include " + h + "\n";
      sources[srcs.back()] = c;
    }
    Manifest man;
    std::string aliasName;
    int n = (int)rng.range(2, opt.tier == "thorough" ? 10 : 7);
    for (int i = 0; i < n; i++) {
      Stmt s;
      s.name = "B" + std::to_string(i);
      s.salt = rng.below(10000);
      s.outs.push_back("o" + std::to_string(i));
      if (rng.chance(200)) s.outs.push_back("o" + std::to_string(i) + "b");
      auto pick = [&]() -> std::string {
        if (!products.empty() && rng.chance(550)) return products[rng.below(products.size())];
        return srcs[rng.below(srcs.size())];
      };
      std::set<std::string> used;
      // one statement in eight has no explicit or implicit input at all (a constant-file command; order-only inputs at most)
      bool noInputs = rng.chance(120);
      int ne = noInputs ? 0 : (int)rng.range(1, 2);
      for (int k = 0; k < ne; k++) {
        std::string p = pick();
        if (used.insert(p).second) s.explicitIns.push_back(p);
      }
      if (!noInputs && rng.chance(300)) {
        std::string p = pick();
        if (used.insert(p).second) s.implicitIns.push_back(p);
      }
      if (rng.chance(300)) {
        std::string p = pick();
        if (used.insert(p).second) s.orderOnly.push_back(p);
      }
      unsigned kind = (unsigned)rng.below(100);
      if (kind < 35) {
        s.depfile = true;
        s.readsOrd = !s.orderOnly.empty() && rng.chance(500);
      }
      else if (kind < 45) s.restat = true;
      else if (kind < 50) s.generator = true;
      else if (kind < 62 && !noInputs) s.rsp = true;
      if (rng.chance(250)) s.pool = (int)rng.range(1, 3);   // 3: ninja's console pool (depth 1, output not buffered)
      // later statements may depend on an alias (a phony statement with no file behind it) instead of on files
      if (!aliasName.empty() && rng.chance(450)) {
        unsigned how = (unsigned)rng.below(3);
        if (how == 0 && !used.count(aliasName)) s.implicitIns.push_back(aliasName);
        else if (how == 1) s.orderOnly.push_back(aliasName);
        else s.explicitIns.push_back(aliasName);
      }
      man.stmts.push_back(s);
      for (auto& o : s.outs) products.push_back(o);
      if (aliasName.empty() && i >= 1 && i + 1 < n && rng.chance(350)) {
        Stmt al;
        al.name = "alias";
        al.phony = true;
        al.outs = {"alias"};
        int na = (int)rng.range(1, 2);
        for (int k = 0; k < na; k++) {
          std::string p = rng.chance(800) ? products[rng.below(products.size())] : srcs[rng.below(srcs.size())];
          if (std::find(al.explicitIns.begin(), al.explicitIns.end(), p) == al.explicitIns.end()) al.explicitIns.push_back(p);
        }
        man.stmts.push_back(al);
        aliasName = "alias";
      }
    }
    if (rng.chance(600)) {
      Stmt ph;
      ph.name = "all";
      ph.phony = true;
      ph.outs = {"all"};
      for (int k = 0; k < 2; k++) {
        std::string p = products[products.size() - 1 - rng.below(std::min<size_t>(products.size(), 3))];
        if (std::find(ph.explicitIns.begin(), ph.explicitIns.end(), p) == ph.explicitIns.end()) ph.explicitIns.push_back(p);
      }
      man.stmts.push_back(ph);
      if (rng.chance(700)) man.defaults = {"all"};
    }
    plan.set("manifest", man.toJson());
    Json src = Json::arr();
    for (auto& s : sources) src.push(Json::obj().set("path", s.first).set("content", util::hex(s.second)));
    plan.set("sources", src);
    Json hist = Json::arr();
    auto addBuild = [&]() {
      Json b = Json::obj().set("op", "build");
      if (rng.chance(250)) {
        Json t = Json::arr();
        std::vector<std::string> outs;
        for (auto& st : man.stmts)
          for (auto& o : st.outs) outs.push_back(o);
        int nt = (int)rng.range(1, 2);
        std::set<std::string> chosen;
        for (int k = 0; k < nt; k++) {
          std::string o = outs[rng.below(outs.size())];
          if (chosen.insert(o).second) t.push(Json::str(o));
        }
        b.set("targets", t);
      }
      hist.push(b);
    };
    int nextStmt = n;
    addBuild();
    int nOps = (int)rng.range(2, opt.tier == "thorough" ? 9 : 6);
    for (int i = 0; i < nOps; i++) {
      unsigned roll = (unsigned)rng.below(1000);
      if (roll < 250) {
        addBuild();
      } else if (roll < 600) {
        std::vector<std::string> keys;
        for (auto& s : sources) keys.push_back(s.first);
        std::string p = keys[rng.below(keys.size())];
        std::string old = sources[p], c = "// edit v" + std::to_string(counter++) + "\n";
        size_t pos = 0;
        while ((pos = old.find("#include ", pos)) != std::string::npos) {
          size_t eol = old.find('\n', pos);
          if (rng.chance(850)) c += old.substr(pos, eol - pos + 1);
          pos = eol;
        }
        sources[p] = c;
        hist.push(Json::obj().set("op", "edit").set("path", p).set("content", util::hex(c)));
        addBuild();
      } else if (roll < 720) {
        std::string o = products[rng.below(products.size())];
        hist.push(Json::obj().set("op", "delete").set("path", o));
        addBuild();
      } else if (roll < 770) {
        // manifest edit: a new statement consuming what exists, or removal of a statement nobody consumes
        std::string kind;
        if (rng.chance(650)) {
          Stmt st;
          st.name = "B" + std::to_string(nextStmt);
          st.outs = {"o" + std::to_string(nextStmt)};
          nextStmt++;
          st.salt = rng.below(10000);
          st.explicitIns.push_back(products[rng.below(products.size())]);
          if (rng.chance(300)) st.implicitIns.push_back(srcs[rng.below(srcs.size())]);
          if (rng.chance(300)) st.depfile = true;
          auto at = man.stmts.end();
          if (!man.stmts.empty() && man.stmts.back().phony) --at;
          man.stmts.insert(at, st);
          products.push_back(st.outs[0]);
          kind = "add-statement";
        } else {
          std::set<std::string> consumed;
          for (auto& st : man.stmts)
            for (auto* lst : {&st.explicitIns, &st.implicitIns, &st.orderOnly})
              for (auto& i : *lst) consumed.insert(i);
          std::vector<size_t> free;
          for (size_t k = 0; k < man.stmts.size(); k++) {
            bool used = man.stmts[k].phony;
            for (auto& o : man.stmts[k].outs)
              if (consumed.count(o)) used = true;
            if (!used) free.push_back(k);
          }
          size_t real = 0;
          for (auto& st : man.stmts)
            if (!st.phony) real++;
          if (free.empty() || real < 2) continue;
          size_t k = free[rng.below(free.size())];
          for (auto& o : man.stmts[k].outs) products.erase(std::find(products.begin(), products.end(), o));
          man.stmts.erase(man.stmts.begin() + (long)k);
          kind = "remove-statement";
        }
        hist.push(Json::obj().set("op", "manifest").set("kind", kind).set("manifest", man.toJson()));
        addBuild();
      } else if (roll < 870) {
        // manifest edit: command line of one statement
        std::vector<size_t> real;
        for (size_t k = 0; k < man.stmts.size(); k++)
          if (!man.stmts[k].phony && !man.stmts[k].generator) real.push_back(k);
        if (real.empty()) continue;
        Stmt& s = man.stmts[real[rng.below(real.size())]];
        std::string kind = "salt";
        if (rng.chance(600)) s.salt++;
        else if (s.explicitIns.size() > 1) {
          std::reverse(s.explicitIns.begin(), s.explicitIns.end());
          kind = "reorder-explicit";
        } else {
          s.salt += 7;
        }
        hist.push(Json::obj().set("op", "manifest").set("kind", kind).set("manifest", man.toJson()));
        addBuild();
      } else {
        std::vector<std::string> names;
        for (auto& s : man.stmts)
          if (!s.phony) names.push_back(s.name);
        std::string victim = names[rng.below(names.size())];
        // the command exits non-zero, dies from a signal, or cannot be started at all
        unsigned fm = (unsigned)rng.below(10);
        hist.push(Json::obj().set("op", "fail").set("name", victim).set("mode", fm < 5 ? "exit" : fm < 7 ? "signal" : fm < 8 ? "sigkill" : "spawn"));
        const Stmt* vs = man.byName(victim);
        hist.push(Json::obj().set("op", "delete").set("path", vs->outs[0]));
        addBuild();
        if (rng.chance(400)) addBuild();
        hist.push(Json::obj().set("op", "unfail_all"));
        addBuild();
      }
    }
    if (rng.chance(600)) addBuild();
    plan.set("history", hist);
    return plan;
  }

  RunResult execute(const Json& plan) override {
    Run run(plan);
    g_run = &run;
    sim::set_fatal_handler(onFatal);
    simfs::setFS(std::unique_ptr<simfs::FS>(new simfs::FS()));
    simfs::useSimCwd(false);
    simvfs::reset_stats();
    simvfs::set_hook(nullptr);
    const Json* cfg = plan.find("config");
    sim::SchedConfig sc;
    if (cfg) {
      sc.seed = (uint64_t)cfg->getn("sched_seed", 1);
      sc.policy = (int)cfg->getn("policy", sim::POLICY_STICKY);
      sc.stickyPermille = (int)cfg->getn("sticky", 900);
      sc.pctDepth = (int)cfg->getn("pct", 2);
    }
    simvfs::set_random_seed(sc.seed);
    if (plan.find("decisions")) {
      sc.useReplay = true;
      for (auto& d : plan.geta("decisions")) sc.replay.push_back((uint32_t)d.n);
    }
    sim::begin(sc);
    sim::set_role("main");
    uint64_t t0 = sim::now_ns();
    run.execute();
    sim::end();
    if (getenv("VSIM_TRACE"))
      for (auto& l : run.log) fprintf(stderr, "  %s\n", l.c_str());
    simfs::useSimCwd(false);
    run.res.simtime_us = (sim::now_ns() - t0) / 1000;
    run.res.evhash = run.evh.get();
    run.res.ihash = sim::interleaving_hash();
    run.res.steps = sim::steps();
    run.res.decisions = sim::decisions();
    auto st = sim::stats();
    auto os = simos::stats();
    auto& c = run.res.counters;
    c["sched_switches"] += st.switches;
    c["sched_threads"] += st.threads;
    c["spawns"] += os.spawns;
    c["null_invocations"] += (uint64_t)run.nullBuilds;
    c["commands_skipped"] += (uint64_t)run.skipped;
    c["invocations_with_failures"] += (uint64_t)run.failures;
    c["manifest_edits"] += (uint64_t)run.manifestEdits;
    c["manifest_regenerations"] += (uint64_t)run.regenerations;
    c["restat_outputs_left_alone"] += (uint64_t)run.restatKept;
    c["response_files_read"] += (uint64_t)run.rspReads;
    c["leaked_descriptors"] += simos::fds().size();
    run.res.nontrivial = run.buildNo >= 2 && run.skipped > 0 && os.spawns > 0;
    run.res.sample = "statements=" + std::to_string(run.man.stmts.size()) + " invocations=" + std::to_string(run.buildNo) + " jobs=" + std::to_string(run.jobs) +
                     " db=" + (run.useDb ? "1" : "0");
    simos::reset();
    g_run = nullptr;
    return run.res;
  }
};

} // namespace

runner::World* makeNinjaWorld() { return new NinjaWorld(); }

} // namespace wd
