// World B — the real BuildSystemFrontend / BuildSystem / BuildFile / ExternalCommand / ShellCommand /
// engine / database / lane queue / Subprocess over simulated file system and processes (DESIGN 4, C08..C12, C14).
#include "worlds/bs_world.h"
#include "worlds/bs_model.h"

#include "sim/detsched.h"
#include "sim/simfs.h"
#include "sim/simos.h"
#include "sim/simvfs.h"

#include <sqlite3.h>

#include "llbuild/Basic/FileSystem.h"
#include "llbuild/BuildSystem/BuildFile.h"
#include "llbuild/BuildSystem/BuildKey.h"
#include "llbuild/BuildSystem/BuildSystemFrontend.h"
#include "llbuild/BuildSystem/Command.h"
#include "llbuild/BuildSystem/Tool.h"
#include "llbuild/Commands/Commands.h"

#include "llbuild/BuildSystem/BuildSystem.h"
#include "llbuild/Core/BuildDB.h"
#include "llbuild/llbuild.h"

#include "llvm/ADT/ArrayRef.h"
#include "llvm/ADT/Twine.h"
#include "llvm/Support/SourceMgr.h"

#include <algorithm>
#include <cerrno>
#include <csignal>
#include <cstring>
#include <fnmatch.h>
#include <memory>

using namespace llbuild;
using namespace llbuild::buildsystem;
using runner::RunResult;
using util::Json;

namespace wb {

namespace {

const char* kWork = "/sim/w";

struct FileState {
  bool exists = false;
  uint64_t ino = 0, mtime = 0, size = 0;
  int type = 0;
  uint64_t contentHash = 0;
  bool operator==(const FileState& o) const {
    return exists == o.exists && ino == o.ino && mtime == o.mtime && size == o.size && type == o.type && contentHash == o.contentHash;
  }
  bool operator!=(const FileState& o) const { return !(*this == o); }
};

struct Rec {
  bool ok = false;
  uint64_t defHash = 0;
  std::map<std::string, FileState> ins, outs;   // declared inputs + discovered reads; outputs
  std::vector<std::string> discovered;
  std::map<std::string, std::string> trees;     // directory(-structure) inputs: digest of what the node covers
  int sawBuild = 0;                             // last build that ran this command or found it up to date
  std::map<std::string, int> stamps;            // command-timestamp inputs: the build in which the producer had last run
};

struct Run;
Run* g_run = nullptr;

class Delegate : public BuildSystemFrontendDelegate {
public:
  Run* run;
  Delegate(Run* r, llvm::SourceMgr& sm) : BuildSystemFrontendDelegate(sm, "client", 0), run(r) {}
  std::unique_ptr<Tool> lookupTool(StringRef) override { return nullptr; }
  void cycleDetected(const std::vector<core::Rule*>& items) override;
  void error(StringRef filename, const Token& at, const Twine& message) override;
  void hadCommandFailure() override;
  void commandStarted(Command* c) override;
  void commandFinished(Command* c, basic::ProcessStatus st) override;
  void commandHadError(Command* c, StringRef data) override;
  void commandHadNote(Command*, StringRef) override {}
  void commandHadWarning(Command*, StringRef) override {}
  void commandFoundDiscoveredDependency(Command* c, StringRef path, DiscoveredDependencyKind kind) override;
  void commandCannotBuildOutputDueToMissingInputs(Command* c, Node* output, ArrayRef<BuildKey> inputs) override;
  void cannotBuildNodeDueToMultipleProducers(Node*, std::vector<Command*>) override;
  void commandProcessHadError(Command*, ProcessHandle, const Twine&) override {}
  void commandProcessHadOutput(Command*, ProcessHandle, StringRef) override {}
  void commandProcessFinished(Command*, ProcessHandle, const basic::ProcessResult&) override {}
  void determinedRuleNeedsToRun(core::Rule* rule, core::Rule::RunReason reason, core::Rule* inputRule) override;
};

// One client process: delegate, frontend and the build system (engine, in-memory results) it keeps between builds
struct Session {
  llvm::SourceMgr sm;
  std::unique_ptr<Delegate> delegate;
  std::vector<std::string> envStore;
  std::vector<const char*> envp;
  BuildSystemInvocation inv;
  std::unique_ptr<BuildSystemFrontend> frontend;
};

struct Run {
  Json plan;
  std::string property;
  std::unique_ptr<Session> session;
  bool descChangedSinceSession = false;
  int reusedBuilds = 0;
  Desc desc;
  bool descDirty = true;
  int lanes = 2;
  bool serial = false;
  bool traceOn = false;
  bool fifo = false;
  bool cancelOnFailure = false;   // the harness delegate cancels the build on the first command failure
  bool cliDriver = false;   // builds go through `llbuild buildsystem build` (lib/Commands/BuildSystemCommand.cpp) instead of the harness delegate
  int cliBuilds = 0;
  std::vector<std::string> baseEnv;

  // observation
  int buildNo = 0;
  struct Exec {
    int build;
    std::string name;
    bool ok;
    uint64_t startSeq, endSeq;
  };
  std::vector<Exec> execs;
  // cancellation through the frontend (C05 at build-system level)
  int toolStartsThisBuild = 0;
  std::map<std::string, uint64_t> toolStartSeq;    // this build
  std::map<std::string, uint64_t> spawnSeq;        // this build: when posix_spawn was called for a command
  bool bCancelIssued = false, bCancelReturnedInBuild = false, buildReturned = false, cancelDone = true;
  uint64_t cancelSeq = 0;
  int cancelledBuilds = 0, cancelsInFlight = 0;
  std::map<std::string, std::vector<std::pair<std::string, uint64_t>>> earlier;   // path -> (content, mtime) before each edit
  std::map<std::string, int> lastTouch;   // path -> last build in which the stored result behind it (producer's, or the input node's) may have changed
  std::map<std::string, FileState> nodeSeen;   // source / discovered input -> state the last build that reached it found
  // both maps are keyed by the file behind a spelling ("x.h", "/sim/w/x.h" and a Makefile-style path joined to a working
  // directory may be different nodes to the engine; treating them as one only widens "may re-run")
  std::string touchKey(const std::string& n) const { return isVirtualNode(n) ? n : abs(n); }
  // process death during a build (C04 at build-system level)
  std::unique_ptr<simfs::FS> survivor;
  bool suppress = false;       // the observations of a build whose process "died" half way are not judged
  int crashes = 0, crashesBeforeCommit = 0, crashesWithPartialOutputs = 0;
  int64_t readIteration();
  std::set<std::string> startedThisBuild, finishedOkThisBuild, failedThisBuild;
  std::map<std::string, std::vector<std::pair<std::string, int>>> discoveredThisBuild;
  std::vector<std::string> errors;
  int cmdErrors = 0;
  bool cycle = false;
  std::map<std::string, std::string> failFlags;   // command -> mode
  std::map<std::string, Rec> recs;
  std::set<std::string> softAfterFailure;         // commands whose next (non-)execution is not judged
  std::map<std::string, std::vector<std::string>> staleLast;   // stale-file-removal: expected list of its last successful run
  std::map<std::string, bool> staleHas;
  int staleChecks = 0, staleRemovals = 0;
  uint64_t seq = 0;

  util::Hasher evh;
  std::vector<std::string> log;
  RunResult res;
  bool verdict = false;
  int treeEdits = 0, treeReruns = 0;
  int nullBuilds = 0, skippedCommands = 0, descEdits = 0, sourceEdits = 0, failuresInjected = 0, discoveredSeen = 0;
  bool anyMixed = false;
  bool everFailed = false;

  explicit Run(const Json& p) : plan(p) {}

  void ev(const std::string& s) {
    evh.str(s);
    if (log.size() < 6000) log.push_back("[" + std::to_string(buildNo) + "] " + s);
    seq++;
  }
  std::string tail(size_t n = 60) {
    std::string o;
    size_t from = log.size() > n ? log.size() - n : 0;
    for (size_t i = from; i < log.size(); i++) o += "  " + log[i] + "\n";
    return o;
  }
  void viol(const std::string& clauseIn, const std::string& detail) {
    std::string clause = clauseIn;
    if (suppress) return;
    // the same observation belongs to different properties depending on what the history exercised
    if (property == "C04" && (clause == "C08.1" || clause == "C08.3" || clause == "C09.2") && crashes > 0) clause = "C04.5";   // no clean-build result after the crash
    if (property == "C11" && clause == "C09.2") clause = "C11.2";       // a change to a discovered path did not re-run the command
    if (property == "C10" && clause == "C08.1" && everFailed) clause = "C10.4";   // no convergence after repair
    if (property == "C10" && clause == "C09.2" && everFailed) clause = "C10.3";   // what failed (or was downstream of it) was not attempted again
    if (property == "C05" && (clause == "C08.1" || clause == "C08.3" || clause == "C09.2") && cancelledBuilds > 0) clause = "C05.5";   // a later build is not clean
    bool mine = clause.compare(0, property.size() + 1, property + ".") == 0;
    if (const char* promote = getenv("VSIM_PROMOTE"))   // development aid: report another property's clause as a violation
      if (("," + std::string(promote) + ",").find("," + clause + ",") != std::string::npos) mine = true;
    if (mine) {
      if (verdict) return;
      verdict = true;
      res.status = "viol";
      res.clause = clause;
      res.detail = detail + "\n--- last events ---\n" + tail();
    } else if (std::find(res.incidental.begin(), res.incidental.end(), clause) == res.incidental.end()) {
      res.incidental.push_back(clause);
    }
  }

  std::string abs(const std::string& p) const { return !p.empty() && p[0] == '/' ? p : std::string(kWork) + "/" + p; }

  FileState stateOf(const std::string& path) {
    FileState s;
    simfs::StatBuf sb;
    // the output of a symlink command is observed as a link (the build system records link info for it)
    bool asLink = isLinkNode(path);
    if (simfs::fs().stat(abs(path), !asLink, &sb) != 0) return s;
    s.exists = true;
    s.ino = sb.ino;
    s.mtime = sb.mtime_ns;
    s.size = sb.size;
    s.type = (int)sb.type;
    // what counts as "the same state" depends on the file-system mode the description selects
    if (desc.fsmode == "device-agnostic") {
      s.ino = 0;
    } else if (desc.fsmode == "checksum-only") {
      s.ino = 0;
      s.mtime = 0;
      std::string content;
      if (readSim(path, &content)) {
        util::Hasher h;
        h.str(content);
        s.contentHash = h.get();
      }
    }
    return s;
  }

  // attributes of a node in the current description
  std::string nodeAttr(const std::string& node, const std::string& key) const {
    auto it = desc.nodeAttrs.find(node);
    if (it == desc.nodeAttrs.end()) return "";
    for (auto& kv : it->second)
      if (kv.first == key) return kv.second;
    return "";
  }
  std::vector<std::string> nodeFilters(const std::string& node) const {
    // stored as a YAML flow list of double-quoted patterns
    std::vector<std::string> out;
    std::string v = nodeAttr(node, "content-exclusion-patterns");
    size_t pos = 0;
    while ((pos = v.find('"', pos)) != std::string::npos) {
      size_t end = v.find('"', pos + 1);
      if (end == std::string::npos) break;
      out.push_back(v.substr(pos + 1, end - pos - 1));
      pos = end + 1;
    }
    return out;
  }
  bool nodeIsStructure(const std::string& node) const { return nodeAttr(node, "is-directory-structure") == "true" || nodeAttr(node, "type") == "directory-structure"; }
  // a virtual node that carries "when its producer last ran": consumers re-run whenever the producer has run
  bool isTimestampNode(const std::string& node) const { return nodeAttr(node, "is-command-timestamp") == "true"; }
  std::map<std::string, int> lastOkRun;   // command -> build of its last successful execution

  // What a directory-tree (or directory-structure) node observes beneath `path`: names, types and, for tree
  // nodes, the stat information of every entry; names matching an exclusion pattern are invisible at every level.
  void treeWalk(const std::string& full, const std::vector<std::string>& filters, bool structure, bool root, std::string* out) {
    simfs::InodeP ino;
    if (simfs::fs().lookup(full, true, &ino) != 0) {
      *out += "<missing>";
      return;
    }
    simfs::StatBuf sb;
    simfs::fs().fillStat(ino, &sb);
    auto statText = [&](const simfs::StatBuf& b) {
      if (desc.fsmode == "device-agnostic") return std::to_string(b.mtime_ns) + ":" + std::to_string(b.size) + ":" + std::to_string(b.mode);
      if (desc.fsmode == "checksum-only") {
        util::Hasher h;
        if (ino->type == simfs::Inode::File) h.str(ino->data);
        return std::to_string(b.size) + ":" + std::to_string(b.mode) + ":" + std::to_string(h.get());
      }
      return std::to_string(b.ino) + ":" + std::to_string(b.mtime_ns) + ":" + std::to_string(b.size) + ":" + std::to_string(b.mode);
    };
    if (ino->type != simfs::Inode::Dir) {
      *out += structure ? "f:" + std::to_string(sb.mode) : "f:" + statText(sb);
      return;
    }
    // a directory's own stat information is part of a tree node (except for a filtered root, whose listing carries names only)
    // (the root's own stat is compared separately: a filtered listing of the root carries names only)
    if (structure) *out += "d:" + std::to_string(sb.mode);
    else if (!root) *out += "d:" + statText(sb);
    else *out += "d";
    *out += "{";
    for (auto& e : ino->entries) {
      bool excluded = false;
      for (auto& f : filters)
        if (fnmatch(f.c_str(), e.first.c_str(), 0) == 0) excluded = true;
      if (excluded) continue;
      *out += e.first + "=";
      treeWalk(full + "/" + e.first, filters, structure, false, out);
      *out += ";";
    }
    *out += "}";
  }
  uint64_t defHashWithNodes(const Cmd& c) const {
    util::Hasher h;
    h.u64(c.definitionHash());
    for (auto& i : c.inputs)
      if (isDirNode(i)) {
        h.str(nodeIsStructure(i) ? "true" : "");
      }
    return h.get();
  }
  std::string treeDigest(const std::string& node) {
    std::string p = node;
    while (!p.empty() && p.back() == '/') p.pop_back();
    std::string out;
    treeWalk(abs(p), nodeFilters(node), nodeIsStructure(node), true, &out);
    return out;
  }
  // the root directory's own stat information counts for an unfiltered directory-tree node only
  std::string treeRootStat(const std::string& node) {
    if (nodeIsStructure(node) || !nodeFilters(node).empty()) return "-";
    std::string p = node;
    while (!p.empty() && p.back() == '/') p.pop_back();
    FileState st = stateOf(p);
    return std::to_string(st.exists) + ":" + std::to_string(st.ino) + ":" + std::to_string(st.mtime) + ":" + std::to_string(st.size);
  }

  bool readSim(const std::string& path, std::string* out) {
    simfs::InodeP ino;
    if (simfs::fs().lookup(abs(path), true, &ino) != 0) return false;
    if (ino->type != simfs::Inode::File) return false;
    *out = ino->data;
    return true;
  }

  // ---- reference: what a clean build computes
  std::map<std::string, std::pair<bool, std::string>> expectMemo;
  std::set<std::string> expectVisiting;
  bool expectedContent(const std::string& path, std::string* out);
  bool expectedCommand(const Cmd& c, ToolResult* tr);

  // ---- reachability
  void reachable(const std::vector<std::string>& nodes, std::vector<const Cmd*>* order);

  int toolProgram(simos::ProcCtx& c);
  void checkDatabaseCApi();
  void load();
  void writeBuildFile();
  void opBuild(const Json& op);
  void execute();
};

void Delegate::cycleDetected(const std::vector<core::Rule*>&) {
  run->cycle = true;
  run->ev("cycle-detected");
}
void Delegate::error(StringRef filename, const Token& at, const Twine& message) {
  run->errors.push_back(message.str());
  run->ev("error " + message.str());
  // keep the frontend's error count (it decides the build result) without printing
  BuildSystemFrontendDelegate::error(filename, at, message);
}
void Delegate::hadCommandFailure() {
  run->ev("had-command-failure");
  BuildSystemFrontendDelegate::hadCommandFailure();
  // what `llbuild buildsystem build`'s delegate does: stop the build on the first failure
  if (run->cancelOnFailure && !run->bCancelIssued) {
    run->bCancelIssued = true;
    run->ev("cancel-on-failure");
    cancel();
  }
}
void Delegate::commandStarted(Command* c) {
  run->ev("command-started " + c->getName().str());
  run->startedThisBuild.insert(c->getName().str());
}
void Delegate::commandFinished(Command* c, basic::ProcessStatus st) {
  run->ev("command-finished " + c->getName().str() + " status=" + std::to_string((int)st));
  if (st == basic::ProcessStatus::Succeeded) run->finishedOkThisBuild.insert(c->getName().str());
  else run->failedThisBuild.insert(c->getName().str());
}
void Delegate::commandHadError(Command* c, StringRef data) {
  run->cmdErrors++;
  run->ev("command-error " + c->getName().str() + " " + data.str());
}
void Delegate::commandFoundDiscoveredDependency(Command* c, StringRef path, DiscoveredDependencyKind kind) {
  run->discoveredThisBuild[c->getName().str()].push_back({path.str(), (int)kind});
  run->discoveredSeen++;
  run->ev("discovered " + c->getName().str() + " " + util::printable(path.str(), 60) + " kind=" + std::to_string((int)kind));
}
void Delegate::commandCannotBuildOutputDueToMissingInputs(Command* c, Node*, ArrayRef<BuildKey> inputs) {
  std::string s;
  for (auto& k : inputs) s += (k.isNode() ? k.getNodeName().str() : std::string("?")) + " ";
  run->ev("missing-inputs " + c->getName().str() + " " + s);
}
void Delegate::determinedRuleNeedsToRun(core::Rule* rule, core::Rule::RunReason reason, core::Rule* inputRule) {
  static const char* names[] = {"never-built", "signature-changed", "invalid-value", "input-rebuilt", "forced"};
  if (getenv("VSIM_REASONS"))
    run->ev("needs-to-run " + util::printable(rule->key.str(), 50) + " " + names[(int)reason] + (inputRule ? " <- " + util::printable(inputRule->key.str(), 50) : ""));
}
void Delegate::cannotBuildNodeDueToMultipleProducers(Node*, std::vector<Command*>) { run->ev("multiple-producers"); }

bool Run::expectedCommand(const Cmd& c, ToolResult* tr) {
  ReadFn rd = [this, &c](const std::string& p, std::string* out) -> bool {
    // a declared input that some command produces has the content that command computes
    if (std::find(c.inputs.begin(), c.inputs.end(), p) != c.inputs.end() && desc.producer(p)) return expectedContent(p, out);
    return readSim(p, out);
  };
  *tr = toolCompute(c, rd);
  return tr->ok;
}

bool Run::expectedContent(const std::string& path, std::string* out) {
  auto m = expectMemo.find(path);
  if (m != expectMemo.end()) {
    *out = m->second.second;
    return m->second.first;
  }
  const Cmd* p = desc.producer(path);
  if (p && p->tool == "symlink") return expectedContent(p->contents, out);   // reading the link reads what it names
  if (!p || p->tool != "shell") {
    bool ok = readSim(path, out);
    return ok;
  }
  if (expectVisiting.count(path)) return false;
  expectVisiting.insert(path);
  ToolResult tr;
  // (failure flags are not part of the state a clean build is computed from: they only say what happens if the command runs)
  bool ok = expectedCommand(*p, &tr);
  expectVisiting.erase(path);
  for (size_t i = 0; i < p->outputs.size(); i++) expectMemo[p->outputs[i]] = {ok, ok ? tr.outputs[i] : std::string()};
  *out = expectMemo[path].second;
  return ok;
}

void Run::reachable(const std::vector<std::string>& nodes, std::vector<const Cmd*>* order) {
  std::set<std::string> seen;
  std::function<void(const std::string&)> visit = [&](const std::string& n) {
    const Cmd* p = desc.producer(n);
    if (!p || !seen.insert(p->name).second) return;
    for (auto& i : p->inputs) visit(i);
    order->push_back(p); // post-order: producers before consumers
  };
  for (auto& n : nodes) visit(n);
}

// The simulated compiler.  Runs as a simulated process.
int Run::toolProgram(simos::ProcCtx& c) {
  std::string name = c.argv.size() > 1 ? c.argv[1] : "";
  const Cmd* cmd = desc.byName(name);
  uint64_t startSeq = seq;
  ev("tool-start " + name);
  toolStartsThisBuild++;
  toolStartSeq[name] = startSeq;
  if (!cmd) {
    c.write(2, "unknown command\n");
    return 3;
  }
  if (!c.alive()) return 0;
  std::string mode = failFlags.count(name) ? failFlags[name] : "";
  auto finish = [&](bool ok, int code) {
    execs.push_back({buildNo, name, ok, startSeq, seq});
    ev("tool-end " + name + (ok ? " ok" : " failed"));
    return code;
  };
  if (mode == "exit") {
    c.write(2, "simulated failure\n");
    return finish(false, 1);
  }
  if (mode == "signal" || mode == "sigkill") {
    execs.push_back({buildNo, name, false, startSeq, seq});
    ev("tool-end " + name + " " + mode);
    // SIGKILL from outside the build (an out-of-memory killer, an impatient user): nobody cancelled anything
    c.dieBySignal(mode == "sigkill" ? SIGKILL : SIGSEGV);
    return 0;
  }
  ReadFn rd = [this, &c](const std::string& p, std::string* out) -> bool {
    std::string full = !p.empty() && p[0] == '/' ? p : std::string(kWork) + "/" + p;   // declared names are relative to the build's directory, whatever the tool's own
    simfs::InodeP ino;
    if (simfs::fs().lookup(full, true, &ino) != 0 || ino->type != simfs::Inode::File) return false;
    *out = ino->data;
    return true;
  };
  ToolResult tr = toolCompute(*cmd, rd);
  if (!c.alive()) return 0;
  if (!tr.ok) {
    c.write(2, tr.error + "\n");
    return finish(false, 2);
  }
  std::string oldActor = simfs::fs().actor;
  simfs::fs().actor = "tool:" + name;
  simfs::fs().build = buildNo;
  size_t written = 0;
  for (size_t i = 0; i < cmd->outputs.size(); i++) {
    const std::string& o = cmd->outputs[i];
    if (isVirtualNode(o) || isDirNode(o)) continue;
    std::string full = o[0] == '/' ? o : std::string(kWork) + "/" + o;
    int rc = simfs::fs().writeFile(full, mode == "partial" ? std::string("PARTIAL OUTPUT, TOOL DIED\n") : tr.outputs[i]);
    if (rc != 0) {
      simfs::fs().actor = oldActor;
      c.write(2, "cannot write " + o + "\n");
      return finish(false, 4);
    }
    written++;
    if (mode == "partial" && written == 1) {
      simfs::fs().actor = oldActor;
      c.write(2, "simulated failure after writing one output\n");
      return finish(false, 1);
    }
    if (!c.alive()) {
      simfs::fs().actor = oldActor;
      return 0;
    }
  }
  if (mode == "partial") {
    // nothing to write (only virtual outputs): the tool still dies
    simfs::fs().actor = oldActor;
    c.write(2, "simulated failure\n");
    return finish(false, 1);
  }
  if (!cmd->deps.empty()) {
    std::vector<std::string> listed = tr.discovered;
    // paths looked for but absent are reported too: their later creation must re-run the command
    for (auto& m : tr.missing) listed.push_back(m);
    for (auto& l : listed) l = depSpelling(*cmd, l);
    std::string text;
    if (cmd->style == "dependency-info") {
      text = renderDependencyInfo(listed, {}, {});
      if (mode == "baddeps") text = text.substr(0, text.size() - 1);           // missing terminator
      if (mode == "baddeps2") text[0] = (char)0x7f;                             // bad leading opcode
    } else {
      int variant = (int)(cmd->salt % 16);
      if (cmd->style == "makefile-ignoring-subsequent-outputs") variant &= ~2;   // that style reads the first rule only
      text = renderMakefileDeps(cmd->outputs.empty() ? "out" : cmd->outputs[0], listed, variant);
      if (mode == "baddeps") text = "no-colon-here " + text.substr(text.find(':') == std::string::npos ? 0 : text.find(':') + 1);
      if (mode == "baddeps2") text = ": " + text;
    }
    // the dependency file lies in the command's working directory, and a Makefile-style one spells relative paths from there
    std::string full = cmd->deps[0] == '/' ? cmd->deps : std::string(kWork) + (cmd->workdir.empty() ? "" : "/" + cmd->workdir) + "/" + cmd->deps;
    simfs::fs().mkdirs(full.substr(0, full.rfind('/')));
    simfs::fs().writeFile(full, text);
  }
  simfs::fs().actor = oldActor;
  // some chatter on stdout, as compilers do
  c.write(1, "compiled " + name + "\n");
  return finish(true, 0);
}

int64_t Run::readIteration() {
  int64_t it = -1;
  sqlite3* h = nullptr;
  if (sqlite3_open((std::string(kWork) + "/build.db").c_str(), &h) == SQLITE_OK) {
    sqlite3_stmt* st = nullptr;
    if (sqlite3_prepare_v2(h, "SELECT iteration FROM info", -1, &st, nullptr) == SQLITE_OK) {
      if (sqlite3_step(st) == SQLITE_ROW) it = sqlite3_column_int64(st, 0);
      sqlite3_finalize(st);
    }
  }
  sqlite3_close(h);
  return it;
}

void Run::load() {
  property = plan.gets("property");
  const Json* cfg = plan.find("config");
  Json empty = Json::obj();
  if (!cfg) cfg = &empty;
  lanes = (int)cfg->getn("lanes", 2);
  serial = cfg->getb("serial");
  traceOn = cfg->getb("trace");
  fifo = cfg->getb("fifo");
  cliDriver = cfg->getb("cli_driver") && (property == "C08" || property == "C09" || property == "C10");
  cancelOnFailure = cfg->getb("cancel_on_failure") && (property == "C10" || property == "C08");
  for (auto& e : cfg->geta("base_env")) baseEnv.push_back(e.s);
  if (const Json* d = plan.find("desc")) desc = Desc::fromJson(*d);
  simfs::fs().mkdirs(kWork);
  simfs::fs().mkdirs("/sim/bin");
  for (auto& s : plan.geta("sources")) {
    std::string p = abs(util::unhex(s.gets("path")));
    simfs::fs().mkdirs(p.substr(0, p.rfind('/')));
    simfs::fs().writeFile(p, util::unhex(s.gets("content")));
  }
  util::Hasher sh;
  sh.u64(desc.cmds.size());
  for (auto& c : desc.cmds) {
    sh.u64(c.inputs.size());
    sh.u64(c.outputs.size());
    sh.str(c.tool);
    sh.str(c.style);
  }
  for (auto& j : plan.geta("history")) sh.str(j.gets("op"));
  res.shape = sh.get();
}

void Run::writeBuildFile() {
  simfs::fs().writeFile(std::string(kWork) + "/build.llbuild", desc.toYaml());
  descChangedSinceSession = true;
  if (getenv("VSIM_DUMP")) fprintf(stderr, "---- build.llbuild ----\n%s\n", desc.toYaml().c_str());
  descDirty = false;
}

void Run::opBuild(const Json& op) {
  if (descDirty) writeBuildFile();
  buildNo++;
  std::string target = util::unhex(op.gets("target"));
  std::string node = util::unhex(op.gets("node"));
  bool byNode = !node.empty();
  ev(std::string("build-begin ") + (byNode ? "node=" + node : "target=" + target));
  startedThisBuild.clear();
  finishedOkThisBuild.clear();
  failedThisBuild.clear();
  discoveredThisBuild.clear();
  errors.clear();
  cmdErrors = 0;
  cycle = false;
  expectMemo.clear();
  size_t execFrom = execs.size();
  toolStartsThisBuild = 0;
  toolStartSeq.clear();
  spawnSeq.clear();
  bCancelIssued = bCancelReturnedInBuild = buildReturned = false;
  cancelDone = true;
  const Json* cancelSpec = property == "C05" ? op.find("cancel") : nullptr;
  bool cancelOn = cancelSpec != nullptr;
  // the process dies before the n-th database system call of this build: the disk as it was then is what survives
  const Json* killSpec = property == "C04" ? op.find("kill") : nullptr;
  int64_t killAt = killSpec ? killSpec->getn("n") : -1, iterBefore = -1;
  auto recsBefore = recs;
  auto softBefore = softAfterFailure;
  bool fileExisted = stateOf("build.db").exists;
  if (killSpec) {
    iterBefore = fileExisted ? readIteration() : -1;
    simvfs::reset_counter();
    simvfs::set_hook([this, killAt](const simvfs::Call& c) -> int {
      if ((int64_t)c.index == killAt && !survivor) {
        survivor = simfs::fs().clone();
        suppress = true;
        ev("process-dies-here (database call " + std::to_string(killAt) + ": " + c.op + ")");
      }
      return 0;
    });
  }

  // ---- prediction (before the build touches anything)
  std::vector<std::string> roots;
  if (byNode) roots.push_back(node);
  else if (desc.targets.count(target)) roots = desc.targets[target];
  std::vector<const Cmd*> order;
  reachable(roots, &order);
  std::map<std::string, bool> predictRun, predictFail;
  std::set<std::string> soft;   // commands for which a re-run is allowed but not required in this build
  std::set<std::string> noClaim;   // commands about whose (non-)execution nothing is asserted in this build
  bool exact = true;   // the iff direction is only asserted when the model is exact for this build
  for (const Cmd* c : order) {
    if (c->tool == "symlink") {
      // "Arbitrary inputs can be declared, but they will only be used to establish the order in which the command is run"
      // (docs/buildsystem.rst): it neither consumes them nor is stopped by their failure.  It runs iff never done,
      // redefined, or the link is not the one it made.
      auto rit = recs.find(c->name);
      bool run = rit == recs.end() || !rit->second.ok || rit->second.defHash != defHashWithNodes(*c) || stateOf(c->outputs[0]) != rit->second.outs[c->outputs[0]];
      predictRun[c->name] = run;
      predictFail[c->name] = false;
      continue;
    }
    if (c->tool == "mkdir") {
      // valid while the directory exists and is a directory; its stored value does not follow the directory's timestamps
      auto rit = recs.find(c->name);
      FileState d = stateOf(c->outputs[0]);
      bool run = rit == recs.end() || !rit->second.ok || rit->second.defHash != defHashWithNodes(*c) || !d.exists || d.type != (int)simfs::Inode::Dir;
      predictRun[c->name] = run;
      predictFail[c->name] = d.exists && d.type != (int)simfs::Inode::Dir;   // cannot create a directory where a file is
      continue;
    }
    if (c->tool != "shell") {
      predictRun[c->name] = false;
      if (c->tool != "phony") exact = false;
      for (auto& i : c->inputs) {
        const Cmd* pp = desc.producer(i);
        if (pp && soft.count(pp->name) && !isVirtualNode(i)) soft.insert(c->name);   // an alias forwards "may re-run"
      }
      // a phony command with an input nobody produces and that does not exist cannot be built
      for (auto& i : c->inputs)
        if (!isVirtualNode(i) && !isDirNode(i) && !desc.producer(i) && !stateOf(i).exists) predictFail[c->name] = true;
      continue;
    }
    bool upstreamFailed = false, upstreamRan = false, stampChanged = false;
    for (auto& i : c->inputs) {
      const Cmd* p = desc.producer(i);
      if (!p) continue;
      if (predictFail[p->name]) upstreamFailed = true;
      if (noClaim.count(p->name) || softAfterFailure.count(p->name)) noClaim.insert(c->name);   // nothing firm can be said downstream of an unjudged command
      // The engine compares epochs, not values: a producer whose stored result changed in a build that did not reach this
      // command (and changed back since, which only content-based comparison can show) still re-runs it.  Either is fine.
      if (recs.count(c->name) && lastTouch.count(touchKey(i)) && lastTouch[touchKey(i)] > recs[c->name].sawBuild) soft.insert(c->name);
      // ... and a producer that may legitimately re-run in this build rewrites the input, so its consumers may re-run as well
      if (soft.count(p->name) && (!isVirtualNode(i) || isTimestampNode(i))) soft.insert(c->name);
      // a command timestamp changes whenever its producer runs - now, or in an earlier build that did not reach this command
      if (isTimestampNode(i) && p->tool == "shell") {
        if (predictRun[p->name]) upstreamRan = true;
        else if (recs.count(c->name) && recs[c->name].ok && (!recs[c->name].stamps.count(i) || recs[c->name].stamps[i] != lastOkRun[p->name])) stampChanged = true;
      }
      // a virtual node carries no value: its producer running does not by itself re-run consumers
      if (predictRun[p->name] && !isVirtualNode(i)) {
        // a producer that runs rewrites its outputs: a new timestamp always, new content only sometimes
        // (in checksum-only mode only the content counts: that case is decided per input further down, by
        // comparing what the producer will write with what this command recorded)
        if (!(desc.fsmode == "checksum-only" && p->tool == "shell")) upstreamRan = true;
      }
      if (p->tool == "phony") {
        // a phony producer forwards failure of its own inputs
        for (auto& pi : p->inputs) {
          const Cmd* pp = desc.producer(pi);
          if (pp && predictFail[pp->name]) upstreamFailed = true;
        }
      }
    }
    auto rit = recs.find(c->name);
    // discovered inputs are source files by construction; a description (edited, or shrunk) in which one of them has become
    // some command's output is outside the model
    if (rit != recs.end())
      for (auto& d : rit->second.discovered)
        if (desc.producer(d)) noClaim.insert(c->name);
    // the same for source and discovered inputs whose node value changed in a build that did not reach this command
    if (rit != recs.end()) {
      for (auto& i : c->inputs)
        if (!desc.producer(i) && lastTouch.count(touchKey(i)) && lastTouch[touchKey(i)] > rit->second.sawBuild) soft.insert(c->name);
      for (auto& d : rit->second.discovered)
        if (lastTouch.count(touchKey(d)) && lastTouch[touchKey(d)] > rit->second.sawBuild) soft.insert(c->name);
    }
    bool run = false;
    if (rit == recs.end() || !rit->second.ok) run = true;
    else if (c->allowModified) {
      // documented opt-out: output state changes do not invalidate the result, only missing outputs and definition
      // changes do; what happens when only inputs changed is not judged
      Rec& r = rit->second;
      if (r.defHash != defHashWithNodes(*c)) run = true;
      for (auto& o : c->outputs)
        if (!isVirtualNode(o) && !isDirNode(o) && !stateOf(o).exists) run = true;
      if (!run) noClaim.insert(c->name);
    } else {
      Rec& r = rit->second;
      if (r.defHash != defHashWithNodes(*c) || c->always || upstreamRan || stampChanged) run = true;
      for (auto& o : c->outputs)
        if (!isVirtualNode(o) && !isDirNode(o) && stateOf(o) != r.outs[o]) run = true;
      for (auto& i : c->inputs) {
        if (isVirtualNode(i)) continue;
        if (isDirNode(i)) {
          // a changed filter list is an edit of the description: whether the consumer re-runs when the set of
          // covered entries stays the same is not prescribed; when the covered set changes it must
          if (r.trees[i + "#filters"] != nodeAttr(i, "content-exclusion-patterns")) soft.insert(c->name);
          if (!r.trees.count(i) || r.trees[i] != treeDigest(i)) run = true;
          // root stat: only comparable when the node was and is an unfiltered tree node
          else if (r.trees[i + "#root"] != "-" && treeRootStat(i) != "-" && r.trees[i + "#root"] != treeRootStat(i)) run = true;
          else if ((r.trees[i + "#root"] == "-") != (treeRootStat(i) == "-")) exact = false;
          continue;
        }
        if (isMkdirNode(i)) continue;   // the node's value is the mkdir command's result: it changes when that command runs
        FileState now = stateOf(i);
        const Cmd* ip = desc.producer(i);
        if (desc.fsmode == "checksum-only" && ip && ip->tool == "shell" && predictRun[ip->name]) {
          // the producer rewrites the file before this command is looked at: what counts is what it will contain
          std::string want;
          if (expectedContent(i, &want)) {
            util::Hasher h;
            h.str(want);
            now.exists = true;
            now.type = (int)simfs::Inode::File;
            now.size = want.size();
            now.contentHash = h.get();
          }
        }
        if (!r.ins.count(i) || now != r.ins[i]) run = true;
      }
      for (auto& d : r.discovered)
        if (!r.ins.count(d) || stateOf(d) != r.ins[d]) run = true;
    }
    // missing source input => the command cannot run
    bool missingInput = false;
    for (auto& i : c->inputs)
      if (!isVirtualNode(i) && !isDirNode(i) && !desc.producer(i) && !stateOf(i).exists && !c->allowMissing) missingInput = true;
    if (upstreamFailed || missingInput) {
      predictRun[c->name] = false;
      predictFail[c->name] = true;
      continue;
    }
    predictRun[c->name] = run;
    predictFail[c->name] = run && failFlags.count(c->name) > 0;
    if (run && !predictFail[c->name])
      for (auto& o : c->outputs)   // a directory where the tool must write a file: it cannot
        if (!isVirtualNode(o) && !isDirNode(o) && !isMkdirNode(o) && stateOf(o).exists && stateOf(o).type == (int)simfs::Inode::Dir) predictFail[c->name] = true;
    // (not downstream of an unjudged command - e.g. an allow-modified-outputs producer that is brought up to date without
    // running although a clean build of it would fail: what this command then reads is not what a clean build gives it)
    if (run && c->strictExtra && !predictFail[c->name] && !noClaim.count(c->name)) {
      // a tool that stops when an undeclared file it needs is absent (C10: "missing undeclared input")
      ToolResult tr;
      if (!expectedCommand(*c, &tr)) predictFail[c->name] = true;
    }
    // a failed run leaves the command "not ok": it runs again next time
  }
  bool anyPredictedFailure = false;
  for (auto& e : predictFail)
    if (e.second) anyPredictedFailure = true;
  // a target the description does not define is an error of its own (the shrinker can produce that)
  if (!byNode && !desc.targets.count(target) && !(desc.targets.empty() && target.empty())) anyPredictedFailure = true;   // (a description without targets is written with an empty default target)
  // a target node nobody produces and that does not exist is an error of its own
  for (auto& n : roots)
    if (!desc.producer(n) && !isVirtualNode(n) && !stateOf(n).exists) anyPredictedFailure = true;

  // ---- C14: what the stale-file-removal commands on the way to the target must remove
  std::set<std::string> wantRemoved;       // existing paths that must disappear (top of each removed sub-tree)
  std::vector<const Cmd*> staleCmds;
  for (const Cmd* c : order)
    if (c->tool == "stale-file-removal") staleCmds.push_back(c);
  auto stripSep = [](std::string r) {
    while (r.size() > 1 && r.back() == '/') r.pop_back();
    return r;
  };
  for (const Cmd* c : staleCmds) {
    if (!staleHas[c->name]) continue;
    std::set<std::string> cur(c->expected.begin(), c->expected.end());
    for (auto& pth : staleLast[c->name]) {
      if (cur.count(pth)) continue;
      bool allowed = c->roots.empty();
      if (!c->roots.empty() && !pth.empty() && pth[0] == '/') {
        for (auto& root : c->roots) {
          std::string r = stripSep(root);
          if (r.empty()) continue;
          if (pth == r || pth == r + "/" || pth.compare(0, r.size() + 1, r + "/") == 0 || (r == "/" && pth[0] == '/')) allowed = true;
        }
      }
      if (!allowed || pth.empty()) continue;
      simfs::StatBuf sb;
      if (simfs::fs().stat(abs(pth), false, &sb) == 0) wantRemoved.insert(abs(pth));
    }
  }
  size_t mutFrom = simfs::fs().log.size();
  std::string savedActor = simfs::fs().actor;
  simfs::fs().actor = "build";

  // ---- the build: in a fresh "process" (new delegate, new frontend, same disk), or - when the history says so and the
  // description is the one the process loaded - in the same one, which re-uses the build system and its engine
  bool keep = op.getb("reuse") && session && !descChangedSinceSession && property != "C04";
  bool ok;
  bool viaCli = cliDriver && !byNode && !cancelOn && !killSpec;
  if (viaCli) {
    // the command-line driver: its own delegate (cancels the build on the first command failure, watches for SIGINT on a
    // pipe), one process per build.  Only what the simulated compiler logs and the exit status are observable.
    {
      runner::Silence quiet;
      session.reset();
    }
    std::vector<std::string> args = {"build", "--chdir", kWork, "-f", "build.llbuild", "--db", "build.db"};
    if (serial) args.push_back("--serial");
    else {
      args.push_back("--jobs");
      args.push_back(std::to_string(lanes));
    }
    if (!target.empty()) args.push_back(target);
    int rc;
    {
      runner::Silence quiet;
      sim::set_child_role("bs");
      rc = llbuild::commands::executeBuildSystemCommand(args);
      sim::set_child_role("");
      // The driver's signal-watching thread is detached and shares a static pipe with the next invocation in this process -
      // which a real `llbuild buildsystem build` never has.  Let it see the end of its pipe and exit first.
      sim::block_until([]() { return sim::live_with_role_prefix("bs") == 0; }, 0, "cli-driver-threads");
      sim::hb_acquire_thread_exits();
    }
    ok = rc == 0;
    buildReturned = true;
    cliBuilds++;
    ev("cli-driver rc=" + std::to_string(rc));
    // a failure cancels the rest of the build in this driver: what was running is interrupted, what completed around the
    // cancellation may or may not have been recorded - the same relaxations as for a client's cancel()
    if (!ok) bCancelIssued = true;
  } else {
    runner::Silence quiet;
    sim::set_child_role("bs");
    if (!keep) {
      session.reset();
      session.reset(new Session());
      Session& S = *session;
      S.delegate.reset(new Delegate(this, S.sm));
      S.inv.chdirPath = kWork;
      S.inv.buildFilePath = "build.llbuild";
      S.inv.dbPath = "build.db";
      S.inv.useSerialBuild = serial;
      S.inv.schedulerLanes = (uint32_t)lanes;
      S.inv.schedulerAlgorithm = fifo ? basic::SchedulerAlgorithm::FIFO : basic::SchedulerAlgorithm::NamePriority;
      if (traceOn) S.inv.traceFilePath = std::string(kWork) + "/trace/build.trace";
      S.envStore = baseEnv;
      for (auto& e : S.envStore) S.envp.push_back(e.c_str());
      S.envp.push_back(nullptr);
      S.inv.environment = S.envp.data();
      S.frontend.reset(new BuildSystemFrontend(*S.delegate, S.inv, basic::createLocalFileSystem()));
      descChangedSinceSession = false;
    } else {
      reusedBuilds++;
      ev("same-process");
    }
    Delegate& delegate = *session->delegate;
    BuildSystemFrontend& frontend = *session->frontend;
    if (cancelOn) {
      // a foreign thread (the client's signal handling thread) cancels through the frontend delegate
      cancelDone = false;
      int n = (int)cancelSpec->getn("n"), yields = (int)cancelSpec->getn("yields");
      Delegate* dp = &delegate;
      sim::spawn("canceller", [this, dp, n, yields]() {
        sim::block_until([this, n]() { return toolStartsThisBuild >= n || buildReturned; }, 0, "cancel-gate");
        for (int i = 0; i < yields && !buildReturned; i++) sim::yield("canceller");
        if (!buildReturned) {
          ev("cancel");
          bCancelIssued = true;
          dp->cancel();
          bCancelReturnedInBuild = !buildReturned;
          cancelSeq = seq;
          ev("cancel-returned");
        }
        sim::hb_release(&cancelDone);
        cancelDone = true;
      });
    }
    ok = byNode ? frontend.buildNode(node) : frontend.build(target);
    buildReturned = true;
    if (!cancelDone) sim::block_until([this]() { return cancelDone; }, 0, "join-canceller");
    sim::hb_acquire(&cancelDone);
    sim::set_child_role("");
  }
  simfs::fs().actor = savedActor;
  ev(std::string("build-end ") + (ok ? "ok" : "failed"));
  // A cancel() that lands after the build's final check cancels the *next* build of the same frontend (the flag is
  // consumed by the next initialize()).  That is the API's behaviour, not a property of this build: such a process is not
  // used for another build here.
  if (bCancelIssued && !(bCancelReturnedInBuild && !ok)) {
    runner::Silence quiet;
    session.reset();
  }
  // ---- C14: exactly the obsolete outputs inside the allowed roots are gone, nothing else was touched
  if (!staleCmds.empty()) {
    staleChecks++;
    std::set<std::string> removedPaths;
    for (size_t i = mutFrom; i < simfs::fs().log.size(); i++) {
      auto& m = simfs::fs().log[i];
      if (m.actor != "build") continue;
      if (m.kind == simfs::Mutation::Unlink || m.kind == simfs::Mutation::Rmdir) removedPaths.insert(m.path);
      else if (m.kind != simfs::Mutation::Create && m.kind != simfs::Mutation::Write && m.kind != simfs::Mutation::Truncate && m.kind != simfs::Mutation::Mkdir)
        viol("C14.3", "the build performed an unexpected file-system mutation on " + util::printable(m.path, 60));
    }
    // canonical spelling of what had to go
    std::set<std::string> wantCanon;
    for (auto& w : wantRemoved) {
      std::string canon = w;
      // collapse doubled separators and a trailing one
      std::string c2;
      for (char ch : canon)
        if (!(ch == '/' && !c2.empty() && c2.back() == '/')) c2 += ch;
      while (c2.size() > 1 && c2.back() == '/') c2.pop_back();
      wantCanon.insert(c2);
    }
    for (auto& w : wantCanon) {
      simfs::StatBuf sb;
      if (simfs::fs().stat(w, false, &sb) == 0)
        viol("C14.1", "obsolete output " + util::printable(w, 60) + " (listed by the previous run, not listed now, inside the allowed roots) was not removed");
      else
        staleRemovals++;
    }
    for (auto& r : removedPaths) {
      bool covered = false;
      for (auto& w : wantCanon)
        if (r == w || r.compare(0, w.size() + 1, w + "/") == 0) covered = true;
      // the database journal is the build's own business
      if (r.find("build.db") != std::string::npos) covered = true;
      if (!covered) viol("C14.2", "the build removed " + util::printable(r, 60) + ", which is not an obsolete output inside the allowed roots");
    }
    for (const Cmd* c : staleCmds)
      if (startedThisBuild.count(c->name) && !failedThisBuild.count(c->name)) {
        staleLast[c->name] = c->expected;
        staleHas[c->name] = true;
      }
  }
  res.counters["builds"]++;
  if (ok) res.counters["builds_ok"]++;

  // ---- observation
  std::set<std::string> ran, ranOk;
  for (size_t i = execFrom; i < execs.size(); i++) {
    ran.insert(execs[i].name);
    if (execs[i].ok) ranOk.insert(execs[i].name);
    int n = 0;
    for (size_t k = execFrom; k < execs.size(); k++)
      if (execs[k].name == execs[i].name) n++;
    if (n > 1) viol("C09.5", "command " + execs[i].name + " was executed " + std::to_string(n) + " times in one build");
  }
  if (viaCli)
    for (const Cmd* c : order)
      if (c->tool == "symlink" || c->tool == "mkdir") noClaim.insert(c->name);   // not observable without the delegate
  for (const Cmd* c : order)
    if ((c->tool == "symlink" || c->tool == "mkdir") && startedThisBuild.count(c->name)) {
      ran.insert(c->name);
      if (finishedOkThisBuild.count(c->name)) ranOk.insert(c->name);
    }
  res.counters["commands_executed"] += ran.size();

  // C05 at build-system level: a cancelled build reports failure and starts nothing after cancel() returned
  std::set<std::string> interrupted;   // tools that started and were killed before they finished
  for (auto& e : toolStartSeq)
    if (!ran.count(e.first)) interrupted.insert(e.first);
  if (bCancelIssued) {
    cancelledBuilds++;
    res.counters["builds_cancelled"]++;
    if (!interrupted.empty()) res.counters["builds_cancelled_with_running_tools"]++;
    if (bCancelReturnedInBuild && ok)
      viol("C05.6", "build " + std::to_string(buildNo) + " reported success although cancel() had returned before it ended");
    for (auto& e : spawnSeq)
      if (bCancelReturnedInBuild && e.second > cancelSeq)
        viol("C05.7", "a process for command " + e.first + " was spawned after cancel() had returned");
  }

  // C10: nothing downstream of a failed command starts; the build reports failure
  std::set<std::string> actuallyFailed;
  for (auto& n : ran)
    if (!ranOk.count(n)) actuallyFailed.insert(n);
  // a command whose process exited 0 can still be failed by the build system (malformed dependency file)
  for (auto& n : failedThisBuild) actuallyFailed.insert(n);
  std::set<std::string> tainted;
  if (!actuallyFailed.empty() || anyPredictedFailure) {
    failuresInjected++;
    everFailed = true;
    if (ok && !actuallyFailed.empty()) {
      std::string names;
      for (auto& n : actuallyFailed) names += n + " ";
      viol("C10.2", "build reported success although these commands failed: " + names);
    }
    // transitive consumers of failed commands
    tainted = actuallyFailed;
    bool grew = true;
    while (grew) {
      grew = false;
      for (auto& c : desc.cmds) {
        if (tainted.count(c.name) || c.tool == "symlink") continue;   // a symlink command's inputs only order it
        for (auto& i : c.inputs) {
          const Cmd* p = desc.producer(i);
          if (p && tainted.count(p->name)) {
            tainted.insert(c.name);
            grew = true;
            break;
          }
        }
      }
    }
    for (auto& t : tainted)
      if (!actuallyFailed.count(t) && ran.count(t)) {
        // only a violation if it started after the failure it depends on ended
        viol("C10.1", "command " + t + " ran in build " + std::to_string(buildNo) + " although a command it (transitively) consumes failed in that build");
      }
  }
  for (auto& e : predictFail)
    if (e.second && predictRun[e.first] && !ran.count(e.first) && exact && !bCancelIssued && !tainted.count(e.first))
      viol("C10.3", "command " + e.first + " failed before and was not attempted again in build " + std::to_string(buildNo));

  if (anyPredictedFailure && ok && exact && !bCancelIssued)
    viol("C10.2", "build " + std::to_string(buildNo) + " reported success although a command on the way to the target must fail (injected failure or missing input)");

  // C08: outputs equal a clean build's
  if (ok) {
    // outputs of (and downstream of) an allow-modified-outputs command that was legitimately left alone are not judged
    std::set<std::string> unjudged;
    for (const Cmd* c : order) {
      bool skip = c->allowModified && !ran.count(c->name);
      for (auto& i : c->inputs) {
        const Cmd* ip = desc.producer(i);
        if (ip && unjudged.count(ip->name)) skip = true;
      }
      if (skip) unjudged.insert(c->name);
    }
    for (const Cmd* c : order) {
      if (c->tool == "symlink") {
        std::string target;
        int rc = simfs::fs().readlink(abs(c->outputs[0]), &target);
        if (rc != 0) viol("C08.1", "after successful build " + std::to_string(buildNo) + " " + c->outputs[0] + " is not a symbolic link (symlink command " + c->name + ")");
        else if (target != c->contents) viol("C08.1", "after successful build " + std::to_string(buildNo) + " link " + c->outputs[0] + " names " + util::printable(target, 40) + " instead of " + util::printable(c->contents, 40));
        res.counters["links_compared"]++;
        continue;
      }
      if (c->tool == "mkdir") {
        FileState d = stateOf(c->outputs[0]);
        if (!d.exists || d.type != (int)simfs::Inode::Dir) viol("C08.1", "after successful build " + std::to_string(buildNo) + " " + c->outputs[0] + " is not a directory (mkdir command " + c->name + ")");
        res.counters["directories_compared"]++;
        continue;
      }
      if (c->tool != "shell" || unjudged.count(c->name)) continue;
      for (auto& o : c->outputs) {
        if (isVirtualNode(o) || isDirNode(o)) continue;
        std::string want, got;
        bool wok = expectedContent(o, &want);
        bool gok = readSim(o, &got);
        if (!wok) {
          viol("C08.2", "build " + std::to_string(buildNo) + " succeeded although a clean build of " + o + " fails");
          continue;
        }
        if (!gok) viol("C08.1", "after successful build " + std::to_string(buildNo) + " output " + o + " of " + c->name + " does not exist");
        else if (got != want)
          viol("C08.1", "after successful build " + std::to_string(buildNo) + " output " + o + " of " + c->name + " holds " + util::printable(got, 50) +
                            " but a clean build produces " + util::printable(want, 50));
        res.counters["outputs_compared"]++;
      }
    }
  } else if (!anyPredictedFailure && actuallyFailed.empty() && !cycle && !bCancelIssued) {
    std::string errs;
    for (auto& e : errors) errs += e + "; ";
    viol("C08.3", "build " + std::to_string(buildNo) + " failed although nothing was made to fail and a clean build succeeds (errors: " + errs + ")");
  }

  // C09: executed set vs. model
  bool anyRan = false, anySkipped = false;
  for (const Cmd* c : order) {
    if (c->tool != "shell" && c->tool != "symlink" && c->tool != "mkdir") continue;
    bool did = ran.count(c->name) > 0;
    bool want = predictRun[c->name];
    if (did) anyRan = true;
    else anySkipped = true;
    bool hasDir = false;
    for (auto& i : c->inputs)
      if (isDirNode(i)) hasDir = true;
    if (hasDir && did && buildNo > 1) treeReruns++;
    if (softAfterFailure.count(c->name)) {
      if (did && ranOk.count(c->name)) softAfterFailure.erase(c->name);
      continue;
    }
    if (noClaim.count(c->name)) continue;
    if (want && !did && !predictFail[c->name] && actuallyFailed.empty() && !anyPredictedFailure && !bCancelIssued && !cycle) {
      // (a hard prediction: soft only ever relaxes the "must not run" direction)
      std::string why = !recs.count(c->name) ? "never ran successfully" : recs[c->name].defHash != defHashWithNodes(*c) ? "its definition (or the type/filters of one of its input nodes) changed" : "an input or output changed";
      viol(hasDir ? "C12.1" : "C09.2", "command " + c->name + " was not re-executed in build " + std::to_string(buildNo) + " although " + why);
    }
    if (!want && did && exact && !c->always && !soft.count(c->name))
      viol(hasDir ? "C12.2" : "C09.3", "command " + c->name + " was re-executed in build " + std::to_string(buildNo) + " although neither its definition nor any input or output changed");
  }
  if (anyRan && anySkipped && buildNo > 1) anyMixed = true;
  if (!anyRan && buildNo > 1 && ok) nullBuilds++;
  for (const Cmd* c : order)
    if (c->tool == "shell" && !ran.count(c->name)) skippedCommands++;

  // C11: discovered paths are delivered byte for byte, and malformed files fail the command
  for (const Cmd* c : order) {
    if (c->tool != "shell" || c->deps.empty() || !ranOk.count(c->name) || bCancelIssued || viaCli) continue;
    std::string mode = failFlags.count(c->name) ? failFlags[c->name] : "";
    if (mode == "baddeps" || mode == "baddeps2") {
      if (ok || !failedThisBuild.count(c->name) == false) {
        // the tool exited 0 but wrote a malformed dependency file: the command must be reported as failed
      }
      if (ok) viol("C11.3", "command " + c->name + " wrote a malformed dependency file and the build still succeeded");
      continue;
    }
    ToolResult tr;
    ReadFn rd = [this](const std::string& p, std::string* out) { return readSim(p, out); };
    tr = toolCompute(*c, rd);
    std::vector<std::string> want = tr.discovered;
    for (auto& m : tr.missing) want.push_back(m);
    std::multiset<std::string> wantSet, gotSet;
    for (auto& p : want) {
      std::string sp = depSpelling(*c, p);
      // a Makefile-style relative path comes back joined to the working directory (not normalised), an absolute one as it is
      wantSet.insert(c->style == "dependency-info" ? p : !sp.empty() && sp[0] == '/' ? sp : c->workdir.empty() ? abs(sp) : std::string(kWork) + "/" + c->workdir + "/" + sp);
    }
    for (auto& d : discoveredThisBuild[c->name])
      if (d.second == 0) gotSet.insert(d.first);
    if (wantSet != gotSet) {
      std::string w, g;
      for (auto& p : wantSet) w += util::printable(p, 40) + " | ";
      for (auto& p : gotSet) g += util::printable(p, 40) + " | ";
      viol("C11.1", "command " + c->name + " reported reading {" + w + "} (style " + c->style + ") but the build system recovered {" + g + "}");
    }
    res.counters["depfiles_checked"]++;
  }

  // ---- whose stored result may have changed in this build; who was brought up to date
  for (const Cmd* c : order) {
    if (c->tool != "shell") continue;
    bool touched = ran.count(c->name) > 0;
    if (!touched && recs.count(c->name))
      for (auto& o : c->outputs)
        if (!isVirtualNode(o) && !isDirNode(o) && stateOf(o) != recs[c->name].outs[o]) touched = true;   // e.g. updated without running
    if (touched)
      for (auto& o : c->outputs) lastTouch[touchKey(o)] = buildNo;
  }
  if (ok)
    for (const Cmd* c : order)
      if (c->tool == "shell" && recs.count(c->name)) recs[c->name].sawBuild = buildNo;
  // ---- update the records of what ran
  for (const Cmd* c : order) {
    if (c->tool == "symlink" || c->tool == "mkdir") {
      if (ranOk.count(c->name)) {
        Rec r;
        r.ok = true;
        r.sawBuild = buildNo;
        r.defHash = defHashWithNodes(*c);
        r.outs[c->outputs[0]] = stateOf(c->outputs[0]);
        recs[c->name] = r;
      } else if (ran.count(c->name)) {
        if (bCancelIssued) softAfterFailure.insert(c->name);
        else recs[c->name].ok = false;
      }
      continue;
    }
    if (c->tool != "shell") continue;
    if (ranOk.count(c->name) && !(failFlags.count(c->name) && (failFlags[c->name] == "baddeps" || failFlags[c->name] == "baddeps2"))) {
      Rec r;
      r.ok = true;
      r.sawBuild = buildNo;
      r.defHash = defHashWithNodes(*c);
      for (auto& i : c->inputs) {
        if (isDirNode(i)) {
          r.trees[i] = treeDigest(i);
          r.trees[i + "#root"] = treeRootStat(i);
          r.trees[i + "#filters"] = nodeAttr(i, "content-exclusion-patterns");
        }
        else if (!isVirtualNode(i) && !isMkdirNode(i)) r.ins[i] = stateOf(i);
        else if (isTimestampNode(i) && desc.producer(i)) r.stamps[i] = lastOkRun[desc.producer(i)->name];
      }
      lastOkRun[c->name] = buildNo;
      for (auto& o : c->outputs)
        if (!isVirtualNode(o) && !isDirNode(o)) r.outs[o] = stateOf(o);
      if (!c->deps.empty()) {
        ToolResult tr;
        ReadFn rd = [this](const std::string& p, std::string* out) { return readSim(p, out); };
        tr = toolCompute(*c, rd);
        for (auto& d : tr.discovered) {
          r.discovered.push_back(d);
          r.ins[d] = stateOf(d);
        }
        for (auto& m : tr.missing) {
          r.discovered.push_back(m);
          r.ins[m] = stateOf(m);
        }
      }
      recs[c->name] = r;
    } else if (ran.count(c->name) || interrupted.count(c->name)) {
      // A failure is recorded and the command re-attempted - unless the build was cancelled (a client's cancel(), or a delegate
      // that cancels on the first failure): the engine then drops completions it has not processed, an earlier successful
      // result may still stand, and if nothing else changed it is legitimately up to date.  Either, until it runs again.
      if (bCancelIssued) softAfterFailure.insert(c->name);
      else recs[c->name].ok = false;
    }
  }
  // (after the records: the discovered inputs of what ran for the first time in this build count too)
  for (const Cmd* c : order) {
    if (c->tool != "shell") continue;
    std::vector<std::string> nodes;
    for (auto& i : c->inputs)
      if (!desc.producer(i) && !isVirtualNode(i) && !isDirNode(i)) nodes.push_back(i);
    if (recs.count(c->name))
      for (auto& d : recs[c->name].discovered) nodes.push_back(d);
    for (auto& n : nodes) {
      FileState st = stateOf(n);
      if (!nodeSeen.count(touchKey(n)) || nodeSeen[touchKey(n)] != st) {
        nodeSeen[touchKey(n)] = st;
        lastTouch[touchKey(n)] = buildNo;
      }
    }
  }
  // A command that finished around a cancellation may or may not have had its result recorded (the engine drops what it
  // has not processed when the build is cancelled): it may run again, and so may what consumes it.
  if (bCancelIssued)
    for (auto& n : ranOk) softAfterFailure.insert(n);
  // everything downstream of a failed command must be re-attempted by the next build that reaches it (C10),
  // whether or not this build's target reached it
  std::set<std::string> reached;
  for (const Cmd* c : order) reached.insert(c->name);
  for (auto& t : tainted) {
    if (!recs.count(t)) continue;
    // reached by this build and skipped because of the failure: must be re-attempted.  Consumers this build did not
    // reach see the failed output's value change twice (to "failed" and back); whether they re-run when the final
    // content is identical (checksum-only mode) is not prescribed.
    // After a cancellation nothing is persisted for tasks that did not complete, so the old result of a consumer
    // may legitimately still stand: no claim either way until it runs again.
    if (reached.count(t) && !bCancelIssued) recs[t].ok = false;
    else softAfterFailure.insert(t);
  }

  // ---- C04: the process died at the chosen call; what the next process finds is the disk as it was then
  if (killSpec) {
    simvfs::set_hook(nullptr);
    if (survivor) {
      int64_t iterFinal = readIteration();
      {
        runner::Silence quiet;
        session.reset();   // that process is gone
      }
      std::string actor = simfs::fs().actor;
      simfs::setFS(std::move(survivor));
      survivor.reset();
      simfs::fs().actor = actor;
      suppress = false;
      crashes++;
      res.counters["process_deaths"]++;
      ev("next-process");
      // the next process opens the file (hot-journal recovery happens here, as it would there)
      int64_t iterNow = readIteration();
      bool committed = iterFinal != iterBefore && iterNow == iterFinal;
      // the schema is created in a transaction of its own (epoch 0) before the build's: three legitimate outcomes
      bool schemaOnly = iterBefore < 0 && iterNow == 0;
      if (iterNow != iterBefore && iterNow != iterFinal && !schemaOnly)
        viol("C04.2", "the database holds epoch " + std::to_string(iterNow) + " which is neither the one before (" + std::to_string(iterBefore) + ") nor the one after (" +
                          std::to_string(iterFinal) + ") the interrupted build");
      {
        sqlite3* h = nullptr;
        if (sqlite3_open((std::string(kWork) + "/build.db").c_str(), &h) == SQLITE_OK) {
          sqlite3_stmt* st = nullptr;
          if (sqlite3_prepare_v2(h, "PRAGMA integrity_check", -1, &st, nullptr) == SQLITE_OK) {
            if (sqlite3_step(st) == SQLITE_ROW) {
              std::string r = (const char*)sqlite3_column_text(st, 0);
              if (r != "ok") viol("C04.1", "integrity check of the surviving database: " + r);
            }
            sqlite3_finalize(st);
          }
        }
        sqlite3_close(h);
      }
      if (!committed) {
        crashesBeforeCommit++;
        res.counters["process_deaths_before_commit"]++;
        recs = recsBefore;
        softAfterFailure = softBefore;
        bool partial = false;
        for (auto& e : toolStartSeq) {
          const Cmd* c = desc.byName(e.first);
          if (!c) continue;
          for (auto& o : c->outputs)
            if (!isVirtualNode(o) && !isDirNode(o) && recsBefore.count(c->name) && stateOf(o) != recsBefore[c->name].outs[o]) partial = true;
        }
        if (partial) res.counters["process_deaths_with_outputs_already_modified"]++;
      }
      // what the dead process had started: it will run again or not depending on what survived; contents must converge
      for (auto& e : toolStartSeq) softAfterFailure.insert(e.first);
    }
    suppress = false;
  }
}

void Run::execute() {
  load();
  simos::reset();
  Run* self = this;
  bool debug = getenv("VSIM_REASONS") != nullptr;
  simos::hooks().onSpawn = [self, debug](int pid, const std::vector<std::string>& argv, const std::map<std::string, std::string>&) {
    if (argv.size() > 1) self->spawnSeq[argv[1]] = self->seq;
    if (debug) self->ev("posix_spawn pid=" + std::to_string(pid) + " " + (argv.size() > 1 ? argv[1] : ""));
  };
  if (debug) {
    simos::hooks().onSignal = [self](int pid, int sig, bool delivered) {
      self->ev("kill pid=" + std::to_string(pid) + " sig=" + std::to_string(sig) + (delivered ? " delivered" : " not-delivered"));
    };
  }
  simos::registerProgram("/sim/bin/cc", [self](simos::ProcCtx& c) { return self->toolProgram(c); });
  // failure mode "spawn": the process cannot be created at all (the tool never runs)
  simos::hooks().spawnFault = [self](const std::string&, const std::vector<std::string>& argv) -> int {
    if (argv.size() < 2) return 0;
    auto it = self->failFlags.find(argv[1]);
    if (it == self->failFlags.end() || it->second != "spawn") return 0;
    static const int errs[] = {EAGAIN, ENOMEM, ENOENT, EACCES};
    self->res.counters["spawn_failures_injected"]++;
    self->ev("spawn-refused " + argv[1]);
    return errs[self->buildNo % 4];
  };
  for (auto& op : plan.geta("history")) {
    std::string kind = op.gets("op");
    if (kind == "build") {
      opBuild(op);
    } else if (kind == "edit") {
      std::string p = abs(util::unhex(op.gets("path")));
      simfs::fs().mkdirs(p.substr(0, p.rfind('/')));
      if (isLinkNode(p) || isMkdirNode(p)) simfs::fs().removeAll(p);   // something else takes the link's / directory's place
      {
        simfs::StatBuf sb;
        std::string old;
        if (simfs::fs().stat(p, true, &sb) == 0 && sb.type == simfs::Inode::File && simfs::fs().readFile(p, &old) == 0) earlier[p].push_back({old, sb.mtime_ns});
      }
      simfs::fs().writeFile(p, util::unhex(op.gets("content")));
      sourceEdits++;
      ev("edit " + util::printable(p, 60));
    } else if (kind == "restore") {
      // the file goes back to exactly what it was before its last edit - content and timestamp (a saved copy moved back)
      std::string p = abs(util::unhex(op.gets("path")));
      if (earlier.count(p) && !earlier[p].empty() && stateOf(util::unhex(op.gets("path"))).exists) {
        auto prev = earlier[p].back();
        earlier[p].pop_back();
        simfs::fs().writeFile(p, prev.first);
        simfs::fs().setMtime(p, prev.second);
        sourceEdits++;
        ev("restore " + util::printable(p, 60));
      }
    } else if (kind == "blockdir") {
      // a directory appears where a command writes its output: the command cannot write it
      std::string p = abs(util::unhex(op.gets("path")));
      simfs::fs().removeAll(p);
      simfs::fs().mkdirs(p);
      ev("directory-in-the-way " + util::printable(p, 60));
    } else if (kind == "delete") {
      std::string p = abs(util::unhex(op.gets("path")));
      simfs::fs().removeAll(p);
      ev("delete " + util::printable(p, 60));
    } else if (kind == "desc") {
      if (const Json* d = op.find("desc")) {
        desc = Desc::fromJson(*d);
        descDirty = true;
        descEdits++;
        ev("edit-description");
      }
    } else if (kind == "tree") {
      std::string tk = op.gets("kind");
      std::string p = abs(util::unhex(op.gets("path")));
      std::string to = abs(util::unhex(op.gets("to")));
      auto& F = simfs::fs();
      if (tk == "add" || tk == "edit") {
        F.mkdirs(p.substr(0, p.rfind('/')));
        F.writeFile(p, util::unhex(op.gets("content")));
      } else if (tk == "rm") {
        F.removeAll(p);
      } else if (tk == "rename") {
        F.mkdirs(to.substr(0, to.rfind('/')));
        F.rename(p, to);
      } else if (tk == "mkdir") {
        F.mkdirs(p);
      } else if (tk == "touch") {
        F.setMtime(p, sim::tick_ns());
      } else if (tk == "retype") {
        simfs::StatBuf sb;
        if (F.stat(p, false, &sb) == 0) {
          bool wasDir = sb.type == simfs::Inode::Dir;
          F.removeAll(p);
          if (wasDir) F.writeFile(p, "now a file\n");
          else F.mkdirs(p);
        }
      } else if (tk == "symlink") {
        F.removeAll(p);
        F.symlink(util::unhex(op.gets("content")), p);
      }
      treeEdits++;
      ev("tree-" + tk + " " + util::printable(p, 60));
    } else if (kind == "fail") {
      failFlags[util::unhex(op.gets("cmd"))] = op.gets("mode", "exit");
      ev("fail-flag " + util::unhex(op.gets("cmd")) + " " + op.gets("mode", "exit"));
    } else if (kind == "unfail") {
      failFlags.erase(util::unhex(op.gets("cmd")));
      ev("unfail " + util::unhex(op.gets("cmd")));
    } else if (kind == "unfail_all") {
      failFlags.clear();
      ev("unfail-all");
    }
  }
  {
    runner::Silence quiet;
    session.reset();
  }
  if (property == "C20") checkDatabaseCApi();
}

// C20 (build-database half of the C interface): what libllbuild's llb_database_* calls report about the file the history left
// behind must be what the C++ BuildDB interface reports about it - keys, values, signatures, epochs, dependency lists.
namespace {
struct PlainDbDelegate : public core::BuildDBDelegate {
  std::map<std::string, uint64_t> ids;
  std::vector<std::string> keys;
  const core::KeyID getKeyID(const core::KeyType& key) override {
    auto it = ids.find(key.str());
    if (it != ids.end()) return core::KeyID((const void*)(uintptr_t)it->second);
    keys.push_back(key.str());
    ids[key.str()] = keys.size();
    return core::KeyID((const void*)(uintptr_t)keys.size());
  }
  core::KeyType getKeyForID(const core::KeyID id) override { return core::KeyType(keys[(uint64_t)id - 1]); }
};
struct DbRowC {
  std::string value;
  uint64_t sig = 0, computedAt = 0, builtAt = 0;
  std::vector<std::string> deps;
  bool operator==(const DbRowC& o) const { return value == o.value && sig == o.sig && computedAt == o.computedAt && builtAt == o.builtAt && deps == o.deps; }
  std::string show() const {
    return "value " + util::printable(value, 40) + " sig " + std::to_string(sig) + " computed " + std::to_string(computedAt) + " built " + std::to_string(builtAt) + " deps " +
           std::to_string(deps.size());
  }
};
std::string keyBytes(llb_build_key_t* k) {
  std::string out;
  llb_build_key_get_key_data(k, &out, [](void* ctx, uint8_t* data, size_t n) { static_cast<std::string*>(ctx)->assign((const char*)data, n); });
  return out;
}
DbRowC rowOf(const llb_database_result_t& r) {
  DbRowC row;
  row.value.assign((const char*)r.value.data, r.value.length);
  row.sig = r.signature;
  row.computedAt = r.computed_at;
  row.builtAt = r.built_at;
  for (uint32_t i = 0; i < r.dependencies_count; i++) row.deps.push_back(keyBytes(r.dependencies[i]));
  return row;
}
} // namespace

void Run::checkDatabaseCApi() {
  std::string path = std::string(kWork) + "/build.db";
  if (!stateOf("build.db").exists) return;
  uint32_t schema = BuildSystem::getSchemaVersion();
  // ---- the C++ interface
  std::vector<std::pair<std::string, DbRowC>> cpp;
  uint64_t cppEpoch = 0;
  {
    std::string err;
    auto db = core::createSQLiteBuildDB(path, schema, /*recreateUnmatchedVersion=*/false, &err);
    if (!db) return;   // not a database this client version may read: nothing to compare
    PlainDbDelegate del;
    db->attachDelegate(&del);
    bool ok = false;
    cppEpoch = db->getCurrentEpoch(&ok, &err);
    std::vector<core::KeyType> keys;
    std::vector<core::Result> results;
    if (!ok || !db->getKeysWithResult(keys, results, &err)) return;
    for (size_t i = 0; i < keys.size(); i++) {
      DbRowC row;
      row.value.assign((const char*)results[i].value.data(), results[i].value.size());
      row.sig = results[i].signature.value;
      row.computedAt = results[i].computedAt;
      row.builtAt = results[i].builtAt;
      for (auto d : results[i].dependencies) row.deps.push_back(del.getKeyForID(d.keyID).str());
      cpp.push_back({keys[i].str(), row});
    }
  }
  res.counters["db_capi_comparisons"]++;
  res.counters["db_capi_rows"] += cpp.size();
  // ---- the C interface
  llb_data_t err{0, nullptr};
  std::vector<char> pbuf(path.begin(), path.end());
  pbuf.push_back(0);
  {
    // another client schema version: never interpreted - rejected with a message, file untouched (this interface never recreates)
    std::string before;
    readSim("build.db", &before);
    llb_data_t verr{0, nullptr};
    llb_database_t* other = (llb_database_t*)llb_database_open(pbuf.data(), schema + 1 + (uint32_t)(cppEpoch % 3), &verr);
    if (other) {
      viol("C20.4", "llb_database_open accepts a database written under another client schema version");
      llb_database_destroy(other);
    } else if (verr.length == 0) {
      viol("C20.4", "llb_database_open rejects another client schema version without a message");
    }
    std::string after;
    readSim("build.db", &after);
    if (before != after) viol("C20.4", "llb_database_open with another client schema version changed the database file");
    res.counters["db_capi_version_rejections"]++;
  }
  llb_database_t* cdb = (llb_database_t*)llb_database_open(pbuf.data(), schema, &err);
  if (!cdb) {
    viol("C20.4", "llb_database_open fails on a database the C++ interface reads: " + std::string((const char*)err.data, err.length));
    return;
  }
  llb_data_t e2{0, nullptr};
  uint64_t cEpoch = llb_database_get_epoch(cdb, &e2);
  if (cEpoch != cppEpoch) viol("C20.4", "llb_database_get_epoch reports " + std::to_string(cEpoch) + ", the C++ interface " + std::to_string(cppEpoch));
  llb_database_fetch_result_t* fr = nullptr;
  if (!llb_database_get_keys(cdb, &fr, &e2) || !fr) {
    viol("C20.4", "llb_database_get_keys fails");
  } else {
    uint64_t n = llb_database_fetch_result_get_count(fr);
    if (n != cpp.size()) viol("C20.4", "llb_database_get_keys reports " + std::to_string(n) + " keys, the C++ interface " + std::to_string(cpp.size()));
    for (uint64_t i = 0; i < n && i < cpp.size(); i++)
      if (keyBytes(llb_database_fetch_result_get_key_at_index(fr, (int32_t)i)) != cpp[i].first) viol("C20.4", "llb_database_get_keys: key " + std::to_string(i) + " differs from the C++ interface");
    if (llb_database_fetch_result_contains_rule_results(fr)) viol("C20.4", "a keys-only fetch result claims to contain rule results");
    llb_database_destroy_fetch_result(fr);
  }
  fr = nullptr;
  if (!llb_database_get_keys_and_results(cdb, &fr, &e2) || !fr) {
    viol("C20.4", "llb_database_get_keys_and_results fails");
  } else {
    uint64_t n = llb_database_fetch_result_get_count(fr);
    if (n != cpp.size()) viol("C20.4", "llb_database_get_keys_and_results reports " + std::to_string(n) + " rows, the C++ interface " + std::to_string(cpp.size()));
    if (!llb_database_fetch_result_contains_rule_results(fr)) viol("C20.4", "a keys-and-results fetch result claims to contain no rule results");
    for (uint64_t i = 0; i < n && i < cpp.size(); i++) {
      std::string k = keyBytes(llb_database_fetch_result_get_key_at_index(fr, (int32_t)i));
      DbRowC row = rowOf(*llb_database_fetch_result_get_result_at_index(fr, (int32_t)i));
      if (k != cpp[i].first || !(row == cpp[i].second))
        viol("C20.4", "row " + std::to_string(i) + " (" + util::printable(cpp[i].first, 40) + ") read through llb_database_get_keys_and_results: " + row.show() + "; through the C++ interface: " +
                          cpp[i].second.show());
    }
    llb_database_destroy_fetch_result(fr);
  }
  // ---- one lookup per key, released the documented way
  for (auto& e : cpp) {
    llb_data_t kd{e.first.size(), (const uint8_t*)e.first.data()};
    llb_build_key_t* key = llb_build_key_make(&kd);
    llb_database_result_t r;
    memset(&r, 0, sizeof r);
    llb_data_t e3{0, nullptr};
    bool found = llb_database_lookup_rule_result(cdb, key, &r, &e3);
    if (!found) viol("C20.4", "llb_database_lookup_rule_result finds nothing for stored key " + util::printable(e.first, 40));
    else if (!(rowOf(r) == e.second)) viol("C20.4", "llb_database_lookup_rule_result of " + util::printable(e.first, 40) + ": " + rowOf(r).show() + "; C++ interface: " + e.second.show());
    llb_database_destroy_result(&r);
    llb_build_key_destroy(key);
    res.counters["db_capi_lookups"]++;
  }
  llb_database_destroy(cdb);
}

void onFatal(sim::EndKind kind, const std::vector<sim::ThreadDump>& threads) {
  Run* r = g_run;
  RunResult out;
  if (!r) {
    out.status = "harness";
    runner::fatal_result(out);
  }
  runner::unsilence();
  std::string dump;
  for (auto& t : threads) dump += "  thread " + std::to_string(t.id) + " [" + t.role + "] " + t.state + "\n";
  out = r->res;
  out.evhash = r->evh.get();
  out.decisions = sim::decisions();
  if (!r->verdict) {
    out.status = kind == sim::EndKind::Hang ? "hang" : "livelock";
    out.clause = r->property + ".hang";
    out.detail = std::string(kind == sim::EndKind::Hang ? "HANG" : "LIVELOCK") + " during build " + std::to_string(r->buildNo) + "\n" + dump +
                 "--- last events ---\n" + r->tail();
  }
  runner::fatal_result(out);
}

// ------------------------------------------------------------------ generator

struct Gen {
  util::Rng rng;
  const runner::GenOptions& opt;
  std::string property;
  Desc desc;
  std::map<std::string, std::string> sources;
  uint64_t counter = 1;
  Gen(uint64_t seed, const runner::GenOptions& o) : rng(seed), opt(o), property(o.property) {}

  std::string freshContent(const std::string& tag, const std::vector<std::string>& includes) {
    std::string s = "// " + tag + " v" + std::to_string(counter++) + "\n";
    for (auto& i : includes) s += "#include " + i + "\n";
    s += "int x" + std::to_string(rng.below(1000)) + ";\n";
    return s;
  }

  std::string hostilePath(int i) {
    static const char* parts[] = {"with space", "hash#tag", "dol$lar", "back\\slash", "co:lon", "semi;colon", "q'uote", "uni\xc3\xa9", "a b#c$d", "x\\ y",
                                  "tr ailing ", "$$", "#lead", "\\\\dbl", "eq=ual", "pa(ren)", "st*ar", "am&p"};
    std::string p = parts[rng.below(18)];
    std::string dir = rng.chance(300) ? std::string("sub dir/") : rng.chance(200) ? std::string("inc/") : std::string();
    return dir + p + std::to_string(i) + ".h";
  }

  void build() {
    bool thorough = opt.tier == "thorough";
    int nCmds = (int)rng.range(2, thorough ? 12 : 8);
    int nSrc = (int)rng.range(1, 5);
    int nHdr = (int)rng.range(0, 4);
    bool hostile = property == "C11" ? rng.chance(800) : rng.chance(150);
    std::vector<std::string> hdrs;
    for (int i = 0; i < nHdr; i++) {
      std::string h = hostile ? hostilePath(i) : "h" + std::to_string(i) + ".h";
      hdrs.push_back(h);
    }
    for (size_t i = 0; i < hdrs.size(); i++) {
      std::vector<std::string> inc;
      if (i + 1 < hdrs.size() && rng.chance(300)) inc.push_back(hdrs[i + 1]);
      sources[hdrs[i]] = freshContent("hdr", inc);
    }
    std::vector<std::string> srcs;
    for (int i = 0; i < nSrc; i++) {
      std::string s = rng.chance(200) ? "src/s" + std::to_string(i) + ".c" : "s" + std::to_string(i) + ".c";
      srcs.push_back(s);
      std::vector<std::string> inc;
      for (auto& h : hdrs)
        if (rng.chance(350)) inc.push_back(h);
      sources[s] = freshContent("src", inc);
    }
    std::vector<std::string> products;
    bool useDeps = property == "C11" ? true : rng.chance(600);
    for (int i = 0; i < nCmds; i++) {
      Cmd c;
      c.name = "C" + std::to_string(i);
      c.salt = rng.below(100000);
      int nin = (int)rng.range(1, 3);
      std::set<std::string> ins;
      for (int k = 0; k < nin; k++) {
        if (!products.empty() && rng.chance(550)) ins.insert(products[rng.below(products.size())]);
        else ins.insert(srcs[rng.below(srcs.size())]);
      }
      c.inputs.assign(ins.begin(), ins.end());
      int nout = rng.chance(250) ? 2 : 1;
      for (int k = 0; k < nout; k++) {
        std::string o = (rng.chance(250) ? "out/o" : "o") + std::to_string(i) + (k ? "b" : "");
        c.outputs.push_back(o);
        products.push_back(o);
      }
      if (useDeps && rng.chance(700)) {
        c.deps = c.outputs[0] + ".d";
        if (property == "C10" && rng.chance(250)) c.strictExtra = true;
        c.style = rng.chance(500) ? "makefile" : "dependency-info";
        if (rng.chance(100)) c.style = "makefile-ignoring-subsequent-outputs";
        if ((property == "C08" || property == "C11" || property == "C09") && rng.chance(150)) {
          // a working directory: the tool runs there, its dependency file lies there, and a Makefile-style dependency file
          // spells relative paths from there
          c.workdir = rng.chance(600) ? "wd0" : "wd0/in ner";
          sources[c.workdir + "/.keep"] = "keeps the directory\n";
        }
        // undeclared extra reads with interesting spellings (some of them absent at first)
        int nx = property == "C11" ? (int)rng.range(1, 3) : (int)rng.below(2);
        for (int k = 0; k < nx; k++) {
          std::string x = hostile || property == "C11" ? hostilePath(100 + i * 4 + k) : "x" + std::to_string(i) + "_" + std::to_string(k) + ".h";
          if (c.style != "dependency-info" && rng.chance(250)) x = std::string(kWork) + "/" + x;   // absolute spelling
          c.extra.push_back(x);
          if (c.strictExtra || rng.chance(750)) sources[x[0] == '/' ? x.substr(strlen(kWork) + 1) : x] = freshContent("extra", {});
        }
      }
      if ((property == "C09" || property == "C10") && rng.chance(property == "C09" ? 160 : 90)) c.allowModified = true;
      if ((property == "C08" || property == "C09" || property == "C10") && rng.chance(90)) {
        // allow-missing-inputs: an input that may not be there; the command runs either way and must notice it come and go
        c.allowMissing = true;
        std::string m = "maybe" + std::to_string(i) + ".h";
        c.inputs.push_back(m);
        maybes.push_back(m);
        if (rng.chance(500)) sources[m] = freshContent("maybe", {});
      }
      if (rng.chance(150)) c.outputs.insert(c.outputs.begin() + (rng.chance(600) ? 0 : (long)c.outputs.size()), "<v" + std::to_string(i) + ">");
      if (rng.chance(200)) c.env.push_back({"MODE", "m" + std::to_string(rng.below(5))});
      if (rng.chance(100)) c.env.push_back({"OTHER", "o" + std::to_string(rng.below(5))});
      if (rng.chance(120)) c.inheritEnv = false;
      if (rng.chance(100)) c.safeInterrupt = false;
      if (rng.chance(60)) c.always = true;
      if (rng.chance(80)) c.signature = "sig" + std::to_string(rng.below(1000));
      if (rng.chance(200)) {
        c.pad.push_back("ab");
        c.pad.push_back("c");
      }
      desc.cmds.push_back(c);
    }
    if (useDeps && rng.chance(property == "C11" ? 450 : 150) && !srcs.empty()) {
      // a command with nothing but a virtual output (a "lint" step): its build value never changes
      Cmd l;
      l.name = "L0";
      l.salt = rng.below(1000);
      l.inputs = {srcs[rng.below(srcs.size())]};
      l.outputs = {"<lint>"};
      l.deps = "lint.d";
      l.style = rng.chance(500) ? "makefile" : "dependency-info";
      desc.cmds.push_back(l);
      products.push_back("<lint>");
    }
    // targets: the default target groups a few products through a phony command
    std::vector<std::string> top;
    for (int k = 0; k < 2 && !products.empty(); k++) top.push_back(products[products.size() - 1 - rng.below(std::min<size_t>(products.size(), 3))]);
    if (desc.byName("L0")) top.push_back("<lint>");
    std::sort(top.begin(), top.end());
    top.erase(std::unique(top.begin(), top.end()), top.end());
    if (rng.chance(500)) {
      Cmd ph;
      ph.name = "all";
      ph.tool = "phony";
      ph.inputs = top;
      ph.outputs = {"<all>"};
      desc.cmds.push_back(ph);
      desc.targets[""] = {"<all>"};
    } else {
      desc.targets[""] = top;
    }
    if (products.size() > 2) desc.targets["second"] = {products[rng.below(products.size())]};
    if (property == "C12") buildTree();
    if ((property == "C08" || property == "C09") && rng.chance(200)) {
      // a command timestamp: a virtual output of P that carries "when P last ran", consumed by a later command Q, which must
      // re-run whenever P has run (and only then, other things being equal)
      std::vector<size_t> shells;
      for (size_t i = 0; i < desc.cmds.size(); i++)
        if (desc.cmds[i].tool == "shell" && !desc.cmds[i].allowModified) shells.push_back(i);
      if (shells.size() >= 2) {
        size_t a = rng.below(shells.size() - 1);
        size_t b = a + 1 + rng.below(shells.size() - 1 - a);
        desc.cmds[shells[a]].outputs.push_back("<ts0>");
        desc.cmds[shells[b]].inputs.push_back("<ts0>");
        std::sort(desc.cmds[shells[b]].inputs.begin(), desc.cmds[shells[b]].inputs.end());
        desc.nodeAttrs["<ts0>"].push_back({"is-command-timestamp", "true"});
      }
    }
    if (rng.chance(300)) desc.fsmode = rng.chance(500) ? "device-agnostic" : "checksum-only";
    if (desc.fsmode.empty() && (property == "C08" || property == "C09" || property == "C10") && rng.chance(250)) {
      // a symlink command (built-in tool, no process) naming a product or a source, and a command that reads through it
      std::vector<std::string> cands;
      for (auto& o : products)
        if (!isVirtualNode(o) && o.find('/') == std::string::npos) cands.push_back(o);
      for (auto& s0 : srcs)
        if (s0.find('/') == std::string::npos) cands.push_back(s0);
      if (!cands.empty()) {
        std::string t = cands[rng.below(cands.size())];
        Cmd sl;
        sl.name = "S0";
        sl.tool = "symlink";
        sl.outputs = {"lk0.lnk"};
        sl.contents = t;
        if (desc.producer(t)) sl.inputs = {t};
        desc.cmds.push_back(sl);
        Cmd rd;
        rd.name = "R0";
        rd.salt = rng.below(100000);
        rd.inputs = {"lk0.lnk", t};
        std::sort(rd.inputs.begin(), rd.inputs.end());
        rd.outputs = {"or0"};
        desc.cmds.push_back(rd);
        Cmd* all = nullptr;
        for (auto& c : desc.cmds)
          if (c.name == "all") all = &c;
        if (all) all->inputs.push_back("or0");
        else desc.targets[""].push_back("or0");
        linkCommands++;
      }
    }
    if (desc.fsmode.empty() && (property == "C08" || property == "C09" || property == "C10") && rng.chance(250)) {
      // a mkdir command (built-in tool) and a command that waits for the directory and writes into it
      Cmd mk;
      mk.name = "M0";
      mk.tool = "mkdir";
      mk.outputs = {"gen.dir"};
      desc.cmds.push_back(mk);
      Cmd w;
      w.name = "W0";
      w.salt = rng.below(100000);
      w.inputs = {srcs[rng.below(srcs.size())], "gen.dir"};
      w.outputs = {"gen.dir/ow0"};
      desc.cmds.push_back(w);
      // ... and one whose directory nothing else would re-create (commands create the parents of their own outputs)
      Cmd mk2;
      mk2.name = "M1";
      mk2.tool = "mkdir";
      mk2.outputs = {"keep.dir"};
      desc.cmds.push_back(mk2);
      Cmd* all = nullptr;
      for (auto& c : desc.cmds)
        if (c.name == "all") all = &c;
      for (const char* n : {"gen.dir/ow0", "keep.dir"}) {
        if (all) all->inputs.push_back(n);
        else desc.targets[""].push_back(n);
      }
      mkdirCommands++;
    }
    desc.normalise();
  }

  // ---- C14: histories of (expected outputs, roots) for a stale-file-removal command
  std::vector<std::string> stalePool() {
    std::string w = kWork;
    return {w + "/r/a.out", w + "/r/sub/b.o", w + "/rr/c.o", w + "/r2/d.o", w + "/other/e.o", w + "/r//f.o", "rel/g.o", w + "/r/dir1",
            w + "/r/sub", w + "/r/sub/deep/h.o", w + "/r2", w + "/r/x y.o", "", w + "/r/a.out.extra", w + "/r2/sub/i.o", w + "/rr", w + "/r",
            // symbolic links: to a directory outside every root that holds a file, and to nothing
            w + "/r/cur.lnk", w + "/r/gone.lnk"};
  }
  static bool isStaleLink(const std::string& pth) { return pth.size() > 4 && pth.compare(pth.size() - 4, 4, ".lnk") == 0; }
  std::vector<std::string> rootPool() {
    std::string w = kWork;
    return {w + "/r", w + "/r/", w + "/r2", w + "/r/sub", w + "/r/sub/", w + "/rr/", w + "/r2//", w + "/r/sub/deep", w + "/r2/sub/", "/", w, w + "/"};
  }
  void setStale(Cmd& c) {
    auto pool = stalePool();
    c.expected.clear();
    int n = (int)rng.range(0, 7);
    for (int i = 0; i < n; i++) c.expected.push_back(pool[rng.below(pool.size())]);
    std::sort(c.expected.begin(), c.expected.end());
    c.expected.erase(std::unique(c.expected.begin(), c.expected.end()), c.expected.end());
    c.roots.clear();
    if (rng.chance(650)) {
      auto rp = rootPool();
      int nr = (int)rng.range(1, 2);
      for (int i = 0; i < nr; i++) c.roots.push_back(rp[rng.below(rp.size() - (rng.chance(900) ? 3 : 0))]);
    }
  }
  void buildStale() {
    desc = Desc();
    sources.clear();
    Cmd s;
    s.name = "S";
    s.tool = "stale-file-removal";
    s.outputs = {"<stale>"};
    setStale(s);
    desc.cmds.push_back(s);
    desc.targets[""] = {"<stale>"};
    // files that exist on disk: everything in the pool (as files; directories get a child) plus bystanders
    for (auto& pth : stalePool()) {
      if (pth.empty()) continue;
      std::string rel = pth[0] == '/' ? pth.substr(strlen(kWork) + 1) : pth;
      if (rel == "r/dir1" || rel == "r/sub" || rel == "r2" || rel == "rr" || rel == "r") continue;   // these are directories
      if (isStaleLink(rel)) continue;   // made by the first ops of the history
      if (rng.chance(850)) sources[rel] = "artifact " + std::to_string(counter++) + "\n";
    }
    sources["r/dir1/inner/k.o"] = "nested\n";
    sources["bystander.txt"] = "keep me\n";
    sources["r/keep.o"] = "keep me too\n";
    sources["rr/keep2.o"] = "keep\n";
    sources["keepout/precious.txt"] = "behind a link, outside every root\n";
  }

  // ---- C12: a source tree consumed through a directory-tree / directory-structure node
  std::set<std::string> treeFiles, treeDirs, extFiles;
  std::string treeLink;   // the symbolic link inside the tree that names ext/, once made
  bool treeTypeAttr = false;
  std::map<std::string, std::vector<std::string>> pastContents;
  int linkCommands = 0, mkdirCommands = 0;
  std::vector<std::string> maybes;   // inputs of allow-missing-inputs commands that come and go
  std::string pickName(bool dirName) {
    static const char* fn[] = {"a.txt", "b.txt", "c.c", "d.tmp", "skipme", "e.h", "f.tmp", "g", "skip.2", "h.txt"};
    static const char* dn[] = {"sub", "inc", "x", "deep", "skipdir", "y.tmp"};
    return dirName ? dn[rng.below(6)] : fn[rng.below(10)];
  }
  void buildTree() {
    treeDirs.insert("tree");
    int nd = (int)rng.range(0, 4);
    for (int i = 0; i < nd; i++) {
      std::vector<std::string> ds(treeDirs.begin(), treeDirs.end());
      std::string parent = ds[rng.below(ds.size())];
      if (std::count(parent.begin(), parent.end(), '/') >= 3) continue;
      treeDirs.insert(parent + "/" + pickName(true));
    }
    int nf = (int)rng.range(1, 8);
    for (int i = 0; i < nf; i++) {
      std::vector<std::string> ds(treeDirs.begin(), treeDirs.end());
      std::string f = ds[rng.below(ds.size())] + "/" + pickName(false);
      if (treeDirs.count(f)) continue;
      treeFiles.insert(f);
      sources[f] = "tree file v" + std::to_string(counter++) + "\n";
    }
    if (rng.chance(400)) {
      // a directory outside the tree that a symbolic link inside the tree will name: what lies behind the link is
      // part of what the node covers
      int ne = (int)rng.range(1, 3);
      for (int i = 0; i < ne; i++) {
        std::string f = "ext/" + pickName(false);
        extFiles.insert(f);
        sources[f] = "ext file v" + std::to_string(counter++) + "\n";
      }
    }
    Cmd t;
    t.name = "T0";
    t.salt = rng.below(1000);
    t.inputs = {"tree/"};
    if (rng.chance(300)) t.inputs.push_back(sources.begin()->first.substr(0, 5) == "tree/" ? "tree/" : sources.begin()->first);
    std::sort(t.inputs.begin(), t.inputs.end());
    t.inputs.erase(std::unique(t.inputs.begin(), t.inputs.end()), t.inputs.end());
    t.outputs = {"tout0"};
    desc.cmds.push_back(t);
    // the node's kind, spelled the old way (is-directory-structure; a trailing slash alone means a tree) or with `type`
    treeTypeAttr = rng.chance(350);
    if (treeTypeAttr) desc.nodeAttrs["tree/"].push_back({"type", rng.chance(350) ? "directory-structure" : "directory"});
    else if (rng.chance(350)) desc.nodeAttrs["tree/"].push_back({"is-directory-structure", "true"});
    if (rng.chance(400)) desc.nodeAttrs["tree/"].push_back({"content-exclusion-patterns", rng.chance(500) ? "[\"*.tmp\", \"skip*\"]" : "[\"*.tmp\"]"});
    desc.targets[""].push_back("tout0");
  }
  Json treeOp() {
    Json op = Json::obj().set("op", "tree");
    std::vector<std::string> fs(treeFiles.begin(), treeFiles.end()), ds(treeDirs.begin(), treeDirs.end());
    unsigned k = (unsigned)rng.below(100);
    if (!extFiles.empty() && rng.chance(treeLink.empty() ? 400 : 300)) {
      if (treeLink.empty()) {
        treeLink = ds[rng.below(ds.size())] + "/" + pickName(true) + "lnk";
        return op.set("kind", "symlink").set("path", util::hex(treeLink)).set("content", util::hex(std::string(kWork) + "/ext"));
      }
      // a change beneath the link's target, which lies outside the tree
      std::vector<std::string> es(extFiles.begin(), extFiles.end());
      unsigned e = (unsigned)rng.below(100);
      if (e < 45) return op.set("kind", "edit").set("path", util::hex(es[rng.below(es.size())])).set("content", util::hex("ext edited v" + std::to_string(counter++) + "\n"));
      if (e < 60) return op.set("kind", "touch").set("path", util::hex(es[rng.below(es.size())]));
      if (e < 85 || es.size() < 2) {
        std::string f = "ext/" + pickName(false) + "e";
        extFiles.insert(f);
        return op.set("kind", "add").set("path", util::hex(f)).set("content", util::hex("ext new v" + std::to_string(counter++) + "\n"));
      }
      std::string f = es[rng.below(es.size())];
      extFiles.erase(f);
      return op.set("kind", "rm").set("path", util::hex(f));
    }
    if (k < 25 || fs.empty()) {
      std::string f = ds[rng.below(ds.size())] + "/" + pickName(false);
      if (treeDirs.count(f)) f += "x";
      treeFiles.insert(f);
      return op.set("kind", "add").set("path", util::hex(f)).set("content", util::hex("new v" + std::to_string(counter++) + "\n"));
    }
    if (k < 45) {
      std::string f = fs[rng.below(fs.size())];
      return op.set("kind", "edit").set("path", util::hex(f)).set("content", util::hex("edited v" + std::to_string(counter++) + "\n"));
    }
    if (k < 55) {
      std::string f = fs[rng.below(fs.size())];
      return op.set("kind", "touch").set("path", util::hex(f));
    }
    if (k < 68) {
      std::string f = fs[rng.below(fs.size())];
      treeFiles.erase(f);
      return op.set("kind", "rm").set("path", util::hex(f));
    }
    if (k < 78) {
      std::string f = fs[rng.below(fs.size())];
      std::string to = ds[rng.below(ds.size())] + "/" + pickName(false) + "r";
      if (treeFiles.count(to) || treeDirs.count(to)) return op.set("kind", "touch").set("path", util::hex(f));
      treeFiles.erase(f);
      treeFiles.insert(to);
      return op.set("kind", "rename").set("path", util::hex(f)).set("to", util::hex(to));
    }
    if (k < 86) {
      std::string d = ds[rng.below(ds.size())] + "/" + pickName(true) + "n";
      treeDirs.insert(d);
      return op.set("kind", "mkdir").set("path", util::hex(d));
    }
    if (k < 93) {
      // retype a file into a directory (or an empty-ish directory into a file)
      std::string f = fs[rng.below(fs.size())];
      treeFiles.erase(f);
      treeDirs.insert(f);
      return op.set("kind", "retype").set("path", util::hex(f));
    }
    // remove a whole sub-directory
    if (ds.size() > 1) {
      std::string d = ds[1 + rng.below(ds.size() - 1)];
      for (auto it = treeFiles.begin(); it != treeFiles.end();)
        if (it->compare(0, d.size() + 1, d + "/") == 0) it = treeFiles.erase(it);
        else ++it;
      for (auto it = treeDirs.begin(); it != treeDirs.end();)
        if (*it == d || it->compare(0, d.size() + 1, d + "/") == 0) it = treeDirs.erase(it);
        else ++it;
      if (treeLink.compare(0, d.size() + 1, d + "/") == 0) treeLink.clear();
      return op.set("kind", "rm").set("path", util::hex(d));
    }
    std::string f = fs[rng.below(fs.size())];
    return op.set("kind", "touch").set("path", util::hex(f));
  }

  // one description edit of a random kind; returns a tag naming the kind
  std::string editDesc() {
    std::vector<size_t> shells;
    for (size_t i = 0; i < desc.cmds.size(); i++)
      if (desc.cmds[i].tool == "shell") shells.push_back(i);
    if (shells.empty()) return "none";
    size_t pick = shells[rng.below(shells.size())];
    unsigned k = (unsigned)rng.below(15);
    if (property == "C08" && rng.chance(120)) {
      // C08 names this pair explicitly: an input becoming a produced node.  A new command starts producing a source file
      // that other commands consume.
      std::vector<std::string> cands, others;
      for (auto& s0 : sources) {
        const std::string& f = s0.first;
        if (f.size() < 2 || f.substr(f.size() - 2) != ".c" || desc.producer(f)) continue;
        bool consumed = false;
        for (auto& oc : desc.cmds)
          if (std::find(oc.inputs.begin(), oc.inputs.end(), f) != oc.inputs.end()) consumed = true;
        (consumed ? cands : others).push_back(f);
      }
      if (!cands.empty()) {
        std::string target = cands[rng.below(cands.size())];
        Cmd n;
        n.name = "P" + std::to_string(counter++);
        n.salt = rng.below(1000);
        for (auto& o : others)
          if (n.inputs.size() < 1) n.inputs.push_back(o);
        n.outputs = {target};
        desc.cmds.insert(desc.cmds.begin(), n);
        sources.erase(target);
        return "source-gets-a-producer";
      }
    }
    if (property == "C09" && rng.chance(150)) {
      // C09 names this pair explicitly: a node moving between the input and the output list.  Prefer a command for which
      // nothing but the signature decides (allow-modified-outputs), with two or more inputs.
      k = 13;
      for (size_t i : shells)
        if (desc.cmds[i].allowModified && desc.cmds[i].inputs.size() >= 2) pick = i;
    }
    Cmd& c = desc.cmds[pick];
    if ((c.name == "R0" || c.name == "W0") && (k == 9 || k == 12)) return "none";   // the reader of a link keeps declaring what the link names
    switch (k) {
    case 0: c.salt++; return "arg";
    case 1:
      if (c.pad.size() == 2 && c.pad[0] == "ab") { c.pad = {"a", "bc"}; return "arg-boundary"; }
      c.pad = {"ab", "c"};
      return "arg-add";
    case 2:
      if (!c.env.empty()) { c.env[0].second += "x"; return "env-value"; }
      c.env.push_back({"MODE", "m9"});
      return "env-add";
    case 3:
      if (!c.env.empty()) { c.env[0].first += "K"; return "env-key"; }
      c.env.push_back({"NEWKEY", "v"});
      return "env-add";
    case 4: c.inheritEnv = !c.inheritEnv; return "inherit-env";
    case 5: c.safeInterrupt = !c.safeInterrupt; return "can-safely-interrupt";
    case 6: c.signature = c.signature.empty() ? "explicit" : c.signature + "2"; return "signature";
    case 7:
      if (c.inputs.size() > 1) { std::reverse(c.inputs.begin(), c.inputs.end()); return "reorder-inputs"; }
      return "none";
    case 8: {
      // add a source input
      for (auto& s : sources)
        if (s.first.size() > 2 && s.first.substr(s.first.size() - 2) == ".c" && std::find(c.inputs.begin(), c.inputs.end(), s.first) == c.inputs.end()) {
          c.inputs.push_back(s.first);
          return "add-input";
        }
      return "none";
    }
    case 9:
      if (c.inputs.size() > 1) { c.inputs.pop_back(); return "remove-input"; }
      return "none";
    case 10:
      if (!c.deps.empty()) { c.style = c.style == "makefile" ? "dependency-info" : "makefile"; return "deps-style"; }
      return "none";
    case 11:
      if (!c.deps.empty()) { c.deps += "2"; return "deps-path"; }
      return "none";
    case 12: {
      // rewire: replace one input by another node (same number of inputs)
      std::vector<std::string> cand;
      for (auto& s2 : sources)
        if (s2.first.size() > 2 && s2.first.substr(s2.first.size() - 2) == ".c") cand.push_back(s2.first);
      // commands are created in dependency order: only products of earlier commands keep the graph acyclic
      for (auto& pc : desc.cmds) {
        if (&pc == &c) break;
        if (pc.tool != "shell") continue;
        for (auto& po : pc.outputs)
          if (!isVirtualNode(po)) cand.push_back(po);
      }
      if (c.inputs.empty() || cand.empty()) return "none";
      std::string repl = cand[rng.below(cand.size())];
      if (std::find(c.inputs.begin(), c.inputs.end(), repl) != c.inputs.end()) return "none";
      c.inputs[rng.below(c.inputs.size())] = repl;
      return "replace-input";
    }
    case 13: {
      if (property != "C09" && rng.chance(500)) { c.always = !c.always; return "always"; }
      if (property == "C09" && rng.chance(200)) { c.always = !c.always; return "always"; }
      // a node moves from the end of the input list to the front of the output list: the command now produces what it used
      // to read (the concatenation of the two lists of names stays the same)
      if (c.inputs.size() < 2 || c.name == "R0" || c.name == "W0") return "none";
      std::string x = c.inputs.back();
      if (desc.producer(x) || isVirtualNode(x) || isDirNode(x)) return "none";
      if (x.size() < 2 || x.substr(x.size() - 2) != ".c") return "none";   // headers can be discovered inputs of others: those stay sources
      for (auto& other : desc.cmds)
        if (&other != &c && std::find(other.inputs.begin(), other.inputs.end(), x) != other.inputs.end()) return "none";
      for (auto& other : desc.cmds)
        for (auto& e : other.extra)
          if (e == x) return "none";
      c.inputs.pop_back();
      c.outputs.insert(c.outputs.begin(), x);
      sources.erase(x);
      return "input-to-output";
    }
    default: {
      if (rng.chance(400)) {
        // a produced node becomes a plain file: its producer is dropped from the description, what it wrote stays on disk
        std::vector<size_t> cands;
        for (size_t i = 0; i < desc.cmds.size(); i++) {
          const Cmd& pc = desc.cmds[i];
          if (pc.tool != "shell" || pc.name == "R0" || pc.name == "W0") continue;
          bool consumed = false, special = false;
          for (auto& o : pc.outputs) {
            if (isVirtualNode(o)) special = true;
            for (auto& other : desc.cmds) {
              if (std::find(other.inputs.begin(), other.inputs.end(), o) != other.inputs.end()) consumed = true;
              if (other.tool == "symlink" && other.contents == o) special = true;
            }
            for (auto& t : desc.targets)
              if (std::find(t.second.begin(), t.second.end(), o) != t.second.end()) special = true;
          }
          if (consumed && !special) cands.push_back(i);
        }
        if (!cands.empty()) {
          desc.cmds.erase(desc.cmds.begin() + (long)cands[rng.below(cands.size())]);
          return "remove-producer";
        }
      }
      // add a new command consuming an existing product
      Cmd n;
      n.name = "N" + std::to_string(counter++);
      n.salt = rng.below(1000);
      n.inputs = {c.outputs[0]};
      n.outputs = {"o_" + n.name};
      desc.cmds.push_back(n);
      auto& t = desc.targets[""];
      if (!t.empty() && !isVirtualNode(t[0])) t.push_back(n.outputs[0]);
      else
        for (auto& pc : desc.cmds)
          if (pc.tool == "phony") pc.inputs.push_back(n.outputs[0]);
      return "add-command";
    }
    }
  }

  Json generate(uint64_t seed) {
    Json plan = Json::obj();
    plan.set("world", "B").set("property", property).set("seed", (int64_t)seed);
    Json cfg = Json::obj();
    cfg.set("lanes", (int64_t)rng.range(1, 4));
    cfg.setb("serial", rng.chance(250));
    cfg.setb("trace", rng.chance(100));   // build-system tracing to a file
    cfg.setb("fifo", rng.chance(400));    // scheduler algorithm of the lane queue
    cfg.setb("cli_driver", rng.chance(property == "C10" ? 250 : 150));
    cfg.setb("cancel_on_failure", rng.chance(300));
    cfg.set("policy", (int64_t)rng.below(3));
    static const int sticky[] = {500, 900, 990};
    cfg.set("sticky", sticky[rng.below(3)]);
    cfg.set("pct", (int64_t)rng.range(1, 3));
    cfg.set("sched_seed", (int64_t)(rng.next() >> 2));
    Json be = Json::arr();
    be.push(Json::str("PATH=/sim/bin"));
    be.push(Json::str("BASE=1"));
    cfg.set("base_env", be);
    plan.set("config", cfg);
    build();
    if (property == "C14") buildStale();
    plan.set("desc", desc.toJson());
    Json src = Json::arr();
    for (auto& s : sources) src.push(Json::obj().set("path", util::hex(s.first)).set("content", util::hex(s.second)));
    plan.set("sources", src);

    Json hist = Json::arr();
    auto addBuild = [&]() {
      Json op = Json::obj().set("op", "build");
      if (desc.targets.count("second") && rng.chance(150)) op.set("target", util::hex("second"));
      else op.set("target", util::hex(""));
      if ((property == "C08" || property == "C09" || property == "C10") && rng.chance(120)) {
        // build a single node instead of a target
        std::vector<std::string> files;
        for (auto& c : desc.cmds)
          if (c.tool == "shell")
            for (auto& o : c.outputs)
              if (!isVirtualNode(o) && !isDirNode(o)) files.push_back(o);
        if (!files.empty()) op.set("node", util::hex(files[rng.below(files.size())]));
      }
      if (hist.a.size() > 0 && rng.chance(300)) op.setb("reuse", true);   // same client process as the previous build, if the description allows
      if (property == "C05" && rng.chance(550))
        op.set("cancel", Json::obj().set("n", (int64_t)rng.below(6)).set("yields", (int64_t)rng.below(25)));
      if (property == "C04" && rng.chance(450)) op.set("kill", Json::obj().set("n", (int64_t)(rng.chance(300) ? rng.below(400) : rng.below(90))));
      hist.push(op);
    };
    if (property == "C14" && rng.chance(600)) {
      hist.push(Json::obj().set("op", "tree").set("kind", "symlink").set("path", util::hex("r/cur.lnk")).set("content", util::hex("../keepout")));
      hist.push(Json::obj().set("op", "tree").set("kind", "symlink").set("path", util::hex("r/gone.lnk")).set("content", util::hex("nowhere")));
    }
    addBuild();
    int nOps = (int)rng.range(2, opt.tier == "thorough" ? 9 : 6);
    std::vector<std::string> flagged;
    for (int i = 0; i < nOps; i++) {
      unsigned roll = (unsigned)rng.below(1000);
      if (property == "C14") {
        if (rng.chance(800)) {
          setStale(desc.cmds[0]);
          hist.push(Json::obj().set("op", "desc").set("kind", "stale-lists").set("desc", desc.toJson()));
        }
        if (rng.chance(250)) {
          // an artifact reappears (a later build step would have produced it)
          auto pool = stalePool();
          std::string pth = pool[rng.below(pool.size())];
          if (!pth.empty() && !isStaleLink(pth) && pth.find("dir1") == std::string::npos && pth != std::string(kWork) + "/r/sub" && pth != std::string(kWork) + "/r2" && pth != std::string(kWork) + "/rr" && pth != std::string(kWork) + "/r")
            hist.push(Json::obj().set("op", "edit").set("path", util::hex(pth)).set("content", util::hex("again " + std::to_string(counter++) + "\n")));
        }
        addBuild();
        continue;
      }
      if (property == "C12" && rng.chance(650)) {
        int n = (int)rng.range(1, 2);
        for (int t = 0; t < n; t++) hist.push(treeOp());
        if (rng.chance(150)) {
          // change what the node covers: type or filters
          auto& attrs = desc.nodeAttrs["tree/"];
          if (rng.chance(500)) {
            bool had = false;
            if (treeTypeAttr) {
              for (auto& kv : attrs)
                if (kv.first == "type") { kv.second = kv.second == "directory" ? "directory-structure" : "directory"; had = true; }
              if (!had) attrs.push_back({"type", "directory-structure"});
            } else {
              for (auto it = attrs.begin(); it != attrs.end(); ++it)
                if (it->first == "is-directory-structure") { attrs.erase(it); had = true; break; }
              if (!had) attrs.push_back({"is-directory-structure", "true"});
            }
          } else {
            bool had = false;
            for (auto it = attrs.begin(); it != attrs.end(); ++it)
              if (it->first == "content-exclusion-patterns") { attrs.erase(it); had = true; break; }
            if (!had) attrs.push_back({"content-exclusion-patterns", "[\"skip*\"]"});
          }
          hist.push(Json::obj().set("op", "desc").set("kind", "node-attr").set("desc", desc.toJson()));
        }
        addBuild();
        if (rng.chance(300)) addBuild();
        continue;
      }
      if ((property == "C11" || property == "C08") && roll >= 300 && roll < 380) {
        // a source and a header it includes change before one build; later the header is put back exactly as it was
        std::vector<std::pair<std::string, std::string>> pairs;
        for (auto& s0 : sources) {
          if (s0.first.size() < 2 || s0.first.substr(s0.first.size() - 2) != ".c") continue;
          size_t pos = 0;
          while ((pos = s0.second.find("#include ", pos)) != std::string::npos) {
            size_t eol = s0.second.find('\n', pos);
            std::string hname = s0.second.substr(pos + 9, eol - pos - 9);
            if (sources.count(hname)) pairs.push_back({s0.first, hname});
            pos = eol;
          }
        }
        if (!pairs.empty()) {
          auto pr = pairs[rng.below(pairs.size())];
          std::vector<std::string> inc;
          size_t pos = 0;
          const std::string old = sources[pr.first];
          while ((pos = old.find("#include ", pos)) != std::string::npos) {
            size_t eol = old.find('\n', pos);
            inc.push_back(old.substr(pos + 9, eol - pos - 9));
            pos = eol;
          }
          sources[pr.first] = freshContent("edit", inc);
          hist.push(Json::obj().set("op", "edit").set("path", util::hex(pr.first)).set("content", util::hex(sources[pr.first])));
          std::vector<std::string> hinc;
          pos = 0;
          const std::string hold = sources[pr.second];
          while ((pos = hold.find("#include ", pos)) != std::string::npos) {
            size_t eol = hold.find('\n', pos);
            hinc.push_back(hold.substr(pos + 9, eol - pos - 9));
            pos = eol;
          }
          std::string hnew = freshContent("edit", hinc);
          hist.push(Json::obj().set("op", "edit").set("path", util::hex(pr.second)).set("content", util::hex(hnew)));
          addBuild();
          hist.push(Json::obj().set("op", "restore").set("path", util::hex(pr.second)));   // sources[hdr] is what it was again
          addBuild();
          continue;
        }
      }
      if (roll < 300) {
        addBuild();
      } else if (roll < 560) {
        // edit an existing source (or create a missing extra / delete one)
        std::vector<std::string> keys;
        for (auto& s : sources) keys.push_back(s.first);
        bool useExtra = (property == "C11" && rng.chance(600)) || rng.chance(150);
        std::string p;
        if (useExtra) {
          std::vector<std::string> extras;
          for (auto& c : desc.cmds)
            for (auto& x : c.extra) extras.push_back(x[0] == '/' ? x.substr(strlen(kWork) + 1) : x);
          if (!extras.empty()) p = extras[rng.below(extras.size())];
        }
        if (p.empty() && keys.empty()) {
          addBuild();
          continue;
        }
        if (p.empty()) p = keys[rng.below(keys.size())];
        std::string newlyIncluded;
        if (rng.chance(120) && p.size() > 2 && p.substr(p.size() - 2) == ".h") {
          hist.push(Json::obj().set("op", "delete").set("path", util::hex(p)));
          sources.erase(p);
        } else {
          std::vector<std::string> inc;
          // keep includes of sources stable most of the time
          std::string old = sources.count(p) ? sources[p] : "";
          size_t pos = 0;
          while ((pos = old.find("#include ", pos)) != std::string::npos) {
            size_t eol = old.find('\n', pos);
            if (rng.chance(850)) inc.push_back(old.substr(pos + 9, eol - pos - 9));
            pos = eol;
          }
          if (rng.chance(300)) {
            // the edited file starts including another existing header
            std::vector<std::string> hs;
            for (auto& s2 : sources)
              if (s2.first != p && s2.first.size() > 2 && s2.first.substr(s2.first.size() - 2) == ".h") hs.push_back(s2.first);
            if (!hs.empty()) {
              std::string h = hs[rng.below(hs.size())];
              // no include cycles: only include "later" names
              if (h > p && std::find(inc.begin(), inc.end(), h) == inc.end()) {
                inc.push_back(h);
                newlyIncluded = h;
              }
            }
          }
          std::string content = freshContent("edit", inc);
          // sometimes the edit takes the file back to what it held before (matters where only content counts)
          auto& past = pastContents[p];
          if (!past.empty() && rng.chance(200)) content = past[rng.below(past.size())];
          if (sources.count(p)) past.push_back(sources[p]);
          sources[p] = content;
          hist.push(Json::obj().set("op", "edit").set("path", util::hex(p)).set("content", util::hex(content)));
        }
        addBuild();
        if (!newlyIncluded.empty() && sources.count(newlyIncluded) && rng.chance(property == "C11" ? 600 : 250)) {
          // ... and the header that has just become a dependency changes next: whoever discovered it in the build above
          // (possibly while reproducing the very value it had before) must re-run
          std::vector<std::string> hinc;
          size_t hp = 0;
          const std::string hold = sources[newlyIncluded];
          while ((hp = hold.find("#include ", hp)) != std::string::npos) {
            size_t eol = hold.find('\n', hp);
            hinc.push_back(hold.substr(hp + 9, eol - hp - 9));
            hp = eol;
          }
          pastContents[newlyIncluded].push_back(hold);
          sources[newlyIncluded] = freshContent("edit", hinc);
          hist.push(Json::obj().set("op", "edit").set("path", util::hex(newlyIncluded)).set("content", util::hex(sources[newlyIncluded])));
          addBuild();
        }
      } else if (roll < 640 && roll >= 620 && !maybes.empty()) {
        std::string m = maybes[rng.below(maybes.size())];
        if (sources.count(m)) {
          sources.erase(m);
          hist.push(Json::obj().set("op", "delete").set("path", util::hex(m)));
        } else {
          sources[m] = freshContent("maybe", {});
          hist.push(Json::obj().set("op", "edit").set("path", util::hex(m)).set("content", util::hex(sources[m])));
        }
        addBuild();
      } else if (roll < 660 && roll >= 640 && mkdirCommands > 0 && desc.byName("M1") && property == "C10") {
        // a file sits where a mkdir command must create its directory: the command fails; later the directory is made by hand
        hist.push(Json::obj().set("op", "edit").set("path", util::hex("keep.dir")).set("content", util::hex("in the way " + std::to_string(counter++) + "\n")));
        addBuild();
        if (rng.chance(400)) addBuild();
        hist.push(Json::obj().set("op", "blockdir").set("path", util::hex("keep.dir")));
        addBuild();
      } else if (roll < 620 && roll >= 600 && mkdirCommands > 0 && desc.byName("M0")) {
        // the directory disappears with everything in it
        hist.push(Json::obj().set("op", "delete").set("path", util::hex(rng.chance(500) ? "gen.dir" : "keep.dir")));
        addBuild();
      } else if (roll < 600 && linkCommands > 0 && desc.byName("S0")) {
        // the link disappears, or something else takes its place
        if (rng.chance(500)) hist.push(Json::obj().set("op", "delete").set("path", util::hex("lk0.lnk")));
        else hist.push(Json::obj().set("op", "edit").set("path", util::hex("lk0.lnk")).set("content", util::hex("not a link " + std::to_string(counter++) + "\n")));
        addBuild();
      } else if (roll < 700) {
        // tamper with or delete an output
        std::vector<std::string> outs;
        for (auto& c : desc.cmds)
          if (c.tool == "shell")
            for (auto& o : c.outputs) outs.push_back(o);
        if (outs.empty()) {   // description edits can remove the last shell command
          addBuild();
          continue;
        }
        std::string o = outs[rng.below(outs.size())];
        if (rng.chance(500)) hist.push(Json::obj().set("op", "delete").set("path", util::hex(o)));
        else hist.push(Json::obj().set("op", "edit").set("path", util::hex(o)).set("content", util::hex("tampered " + std::to_string(counter++) + "\n")));
        addBuild();
      } else if (roll < 880) {
        std::string kind = editDesc();
        desc.normalise();
        hist.push(Json::obj().set("op", "desc").set("kind", kind).set("desc", desc.toJson()));
        addBuild();
      } else if (property == "C05" || property == "C04") {
        addBuild();
      } else {
        // make a command fail for a while
        std::vector<std::string> shells;
        for (auto& c : desc.cmds)
          if (c.tool == "shell") shells.push_back(c.name);
        if (shells.empty()) {
          addBuild();
          continue;
        }
        std::string victim = shells[rng.below(shells.size())];
        static const char* modes[] = {"exit", "signal", "partial", "baddeps", "baddeps2"};
        std::string mode = modes[rng.below(property == "C11" ? 5 : 3)];
        if (property == "C10" && rng.chance(200)) mode = "spawn";   // posix_spawn itself fails
        else if (property == "C10" && rng.chance(120)) mode = "sigkill";
        const Cmd* vc = desc.byName(victim);
        if ((mode == "baddeps" || mode == "baddeps2") && (!vc || vc->deps.empty())) mode = "exit";
        std::string firstFile;
        if (vc)
          for (auto& o : vc->outputs)
            if (!isVirtualNode(o) && !isDirNode(o) && firstFile.empty()) firstFile = o;
        if (property == "C10" && vc && !firstFile.empty() && !vc->allowModified && rng.chance(200)) {
          // unwritable output: the tool itself fails (nothing injected); repair = the obstacle goes away
          hist.push(Json::obj().set("op", "blockdir").set("path", util::hex(firstFile)));
          addBuild();
          if (rng.chance(500)) addBuild();
          hist.push(Json::obj().set("op", "delete").set("path", util::hex(firstFile)));
          addBuild();
          continue;
        }
        hist.push(Json::obj().set("op", "fail").set("cmd", util::hex(victim)).set("mode", mode));
        // force it to run: touch one of its source inputs or its definition
        if (vc) {
          hist.push(Json::obj().set("op", "delete").set("path", util::hex(vc->outputs[0])));
        }
        // other commands see an edited source in the failing build (and may complete in it), and the source is edited
        // again on the way to the repair: what they recorded in the failing build must not count as up to date
        std::string touched;
        if ((property == "C10" || property == "C08") && rng.chance(500)) {
          std::vector<std::string> cs;
          for (auto& s0 : sources)
            if (s0.first.size() > 2 && s0.first.substr(s0.first.size() - 2) == ".c") cs.push_back(s0.first);
          if (!cs.empty()) {
            touched = cs[rng.below(cs.size())];
            sources[touched] = freshContent("pre-failure edit", {});
            hist.push(Json::obj().set("op", "edit").set("path", util::hex(touched)).set("content", util::hex(sources[touched])));
          }
        }
        addBuild();
        if (rng.chance(500)) addBuild();
        if (!touched.empty()) {
          sources[touched] = freshContent("repair edit", {});
          hist.push(Json::obj().set("op", "edit").set("path", util::hex(touched)).set("content", util::hex(sources[touched])));
        }
        hist.push(Json::obj().set("op", "unfail_all"));
        addBuild();
      }
    }
    if (rng.chance(500)) addBuild();
    plan.set("history", hist);
    return plan;
  }
};

class BsWorld : public runner::World {
public:
  std::string property;
  explicit BsWorld(const std::string& p) : property(p) {}
  void warmup() override { simvfs::install(); }

  Json generate(uint64_t seed, const runner::GenOptions& opt) override {
    Gen g(seed, opt);
    return g.generate(seed);
  }

  RunResult execute(const Json& plan) override {
    Run run(plan);
    g_run = &run;
    sim::set_fatal_handler(onFatal);
    simfs::setFS(std::unique_ptr<simfs::FS>(new simfs::FS()));
    simfs::useSimCwd(false);
    simvfs::reset_stats();
    simvfs::set_hook(nullptr);
    const Json* cfg = plan.find("config");
    sim::SchedConfig sc;
    if (cfg) {
      sc.seed = (uint64_t)cfg->getn("sched_seed", 1);
      sc.policy = (int)cfg->getn("policy", sim::POLICY_STICKY);
      sc.stickyPermille = (int)cfg->getn("sticky", 900);
      sc.pctDepth = (int)cfg->getn("pct", 2);
    }
    simvfs::set_random_seed(sc.seed);
    if (plan.find("decisions")) {
      sc.useReplay = true;
      for (auto& d : plan.geta("decisions")) sc.replay.push_back((uint32_t)d.n);
    }
    sim::begin(sc);
    sim::set_role("main");
    uint64_t t0 = sim::now_ns();
    run.execute();
    sim::end();
    simfs::useSimCwd(false);
    if (getenv("VSIM_TRACE"))
      for (auto& l : run.log) fprintf(stderr, "  %s\n", l.c_str());
    run.res.simtime_us = (sim::now_ns() - t0) / 1000;
    run.res.evhash = run.evh.get();
    run.res.ihash = sim::interleaving_hash();
    run.res.steps = sim::steps();
    run.res.decisions = sim::decisions();
    auto st = sim::stats();
    auto os = simos::stats();
    auto& c = run.res.counters;
    c["sched_switches"] += st.switches;
    c["sched_threads"] += st.threads;
    c["spawns"] += os.spawns;
    c["null_builds"] += (uint64_t)run.nullBuilds;
    c["commands_skipped"] += (uint64_t)run.skippedCommands;
    c["description_edits"] += (uint64_t)run.descEdits;
    c["source_edits"] += (uint64_t)run.sourceEdits;
    c["builds_with_failures"] += (uint64_t)run.failuresInjected;
    c["discovered_dependencies_delivered"] += (uint64_t)run.discoveredSeen;
    c["leaked_descriptors"] += simos::fds().size();
    c["builds_in_a_reused_process"] += (uint64_t)run.reusedBuilds;
    c["builds_through_the_command_line_driver"] += (uint64_t)run.cliBuilds;
    const std::string& p = run.property;
    if (p == "C08") run.res.nontrivial = run.descEdits > 0 && run.sourceEdits > 0 && run.skippedCommands > 0;
    else if (p == "C09") run.res.nontrivial = run.anyMixed || run.nullBuilds > 0;
    else if (p == "C10") run.res.nontrivial = run.failuresInjected > 0;
    else if (p == "C05") run.res.nontrivial = run.cancelledBuilds > 0 && run.buildNo >= 2;
    else if (p == "C04") run.res.nontrivial = run.crashesBeforeCommit > 0 && run.buildNo >= 2;
    else if (p == "C11") run.res.nontrivial = run.discoveredSeen > 0;
    else if (p == "C12") run.res.nontrivial = run.treeEdits > 0 && run.treeReruns > 0;
    else if (p == "C14") run.res.nontrivial = run.staleChecks >= 2 && run.staleRemovals > 0;
    else run.res.nontrivial = run.buildNo >= 2;
    c["stale_removal_builds"] += (uint64_t)run.staleChecks;
    c["stale_paths_removed"] += (uint64_t)run.staleRemovals;
    c["tree_edits"] += (uint64_t)run.treeEdits;
    c["tree_consumer_reruns"] += (uint64_t)run.treeReruns;
    run.res.sample = "commands=" + std::to_string(run.desc.cmds.size()) + " builds=" + std::to_string(run.buildNo) + " lanes=" + std::to_string(run.lanes) +
                     " desc_edits=" + std::to_string(run.descEdits) + " failures=" + std::to_string(run.failuresInjected);
    simos::reset();
    g_run = nullptr;
    return run.res;
  }
};

} // namespace

runner::World* makeBsWorld(const std::string& property) { return new BsWorld(property); }

} // namespace wb
