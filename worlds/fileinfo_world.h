#pragma once
#include "sim/runner.h"
namespace wf {
runner::World* makeFileInfoWorld();
}
