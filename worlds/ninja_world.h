#pragma once
#include "sim/runner.h"
namespace wd {
runner::World* makeNinjaWorld();
}
