// World A — the real BuildEngine (+SQLiteBuildDB, execution queues) driven by
// generated rule programs and histories under detsched/simvfs.
// Serves C01..C07 (C20 lives in capi_world.cpp and reuses this model).
#include "worlds/engine_world.h"

#include "sim/detsched.h"
#include "sim/simfs.h"
#include "sim/simvfs.h"

#include "llbuild/Basic/ExecutionQueue.h"
#include "llbuild/Core/BuildDB.h"
#include "llbuild/Core/BuildEngine.h"
#include "llbuild/llbuild.h"

#include <sqlite3.h>

#include <algorithm>
#include <cstring>
#include <memory>

using namespace llbuild;
using namespace llbuild::core;
using runner::RunResult;
using util::Json;

namespace wa {

// ------------------------------------------------------------------ generator

namespace {

std::string spellKey(int style, int id, util::Rng& rng) {
  static const char* numeric[] = {"7", "007", "1e3", " 12", "0x1F", "1.0", "12", "12.0", "-0", "0", "+5", "5", "1e03", "1000", ".5", "0.5"};
  switch (style) {
  case 1: return std::string("a\0b", 3) + std::to_string(id);
  case 2: return std::string("\xff\xfe") + std::to_string(id) + "\x80";
  case 3: return numeric[id % 16];
  case 4: return std::string(4096, (char)('a' + id % 26)) + std::to_string(id);
  case 5: return std::string("x") + std::string(1, '\0') + std::string(1, (char)id);
  case 6: return std::string(1, '\0') + std::string(1, (char)(1 + id % 250)) + "k";
  default: return "k" + std::to_string(id);
  }
}

std::string spellValue(util::Rng& rng, uint64_t counter, int style) {
  std::string base = "v" + std::to_string(counter);
  switch (style) {
  case 1: return base + std::string("\0\x01\xff", 3) + base;
  case 2: return base + std::string(200 + rng.below(2500), (char)('A' + counter % 26));
  case 3: return std::string(1, (char)(1 + counter % 250));
  default: return base;
  }
}

} // namespace

Json EngineGen::generate(uint64_t seed, const runner::GenOptions& opt, const EngineFeatures& f) {
  util::Rng rng(seed);
  Json plan = Json::obj();
  plan.set("world", "A").set("property", opt.property).set("seed", (int64_t)seed);

  int nKeys = (int)rng.range(f.minKeys, f.maxKeys);
  int keyStyle = 0;
  if (f.hostileKeys && rng.chance(450)) keyStyle = (int)rng.range(1, 6);
  if (keyStyle == 3 && !f.numericKeys) keyStyle = 0;
  if (opt.forced("numeric-keys")) keyStyle = 3;
  if (opt.excluded("numeric-keys") && keyStyle == 3) keyStyle = 1;
  bool mixedStyle = keyStyle != 0 && keyStyle != 3 && rng.chance(300);
  int valStyle = f.hostileValues && rng.chance(400) ? (int)rng.range(1, 3) : 0;

  // swarm: feature subset for this run
  bool useDyn = f.dyn && rng.chance(600);
  bool useDisc = f.disc && rng.chance(600);
  bool useSingle = f.single && rng.chance(400);
  bool useFollow = f.follow && rng.chance(400);
  bool useCollapse = f.collapse && rng.chance(600);
  bool useForce = f.force && rng.chance(opt.property == "C20" ? 600 : 250);
  bool useCycles = f.cycles && rng.chance(f.cyclePermille);
  int asyncPermille = f.asyncPermille;
  bool allAsync = asyncPermille > 0 && rng.chance(asyncPermille);

  Json cfg = Json::obj();
  bool db = f.dbPermille >= 1000 || rng.chance(f.dbPermille);
  cfg.setb("db", db);
  static const char* queues[] = {"serial", "lane1", "lane2", "lane4", "lane3"};
  cfg.set("queue", queues[rng.below(5)]);
  cfg.set("alg", (int64_t)rng.below(2));
  cfg.set("policy", (int64_t)rng.below(3));
  static const int sticky[] = {500, 900, 990};
  cfg.set("sticky", sticky[rng.below(3)]);
  cfg.set("pct", (int64_t)rng.range(1, 3));
  cfg.set("sched_seed", (int64_t)(rng.next() >> 2));
  cfg.set("client_version", (int64_t)rng.range(1, 9));
  cfg.setb("trace", rng.chance(120));   // engine tracing to a file: every trace call site runs
  plan.set("config", cfg);

  Program prog;
  std::vector<int> leaves, computed;
  int nLeaves = std::max(1, (int)(nKeys * rng.range(25, 55) / 100));
  for (int i = 0; i < nKeys; i++) {
    RuleSpec r;
    r.id = i + 1;
    int style = keyStyle;
    if (mixedStyle && rng.chance(500)) style = 0;
    r.key = spellKey(style, r.id, rng);
    r.leaf = i < nLeaves;
    r.salt = rng.below(1000);
    r.nonce = 0;
    if (r.leaf) {
      leaves.push_back(r.id);
    } else {
      // depends on earlier rules (DAG) unless a back edge is added below
      int nReq = (int)rng.range(1, std::min(4, i));
      for (int q = 0; q < nReq; q++) {
        int t = REQ;
        if (useSingle && rng.chance(200)) t = SINGLE;
        else if (useFollow && rng.chance(200)) t = FOLLOW;
        r.reqs.push_back({(int)rng.range(1, i), t});
      }
      if (useDyn && rng.chance(500)) {
        int nd = (int)rng.range(1, 2);
        for (int q = 0; q < nd; q++) {
          Dyn d;
          d.on = r.reqs[rng.below(r.reqs.size())].k;
          d.mod = (unsigned)rng.range(1, 3);
          d.rem = (unsigned)rng.below(d.mod);
          d.k = (int)rng.range(1, i);
          d.t = REQ;
          if (useSingle && rng.chance(150)) d.t = SINGLE;
          else if (useFollow && rng.chance(150)) d.t = FOLLOW;
          r.dyn.push_back(d);
        }
      }
      if (useDisc && rng.chance(500)) {
        int nd = (int)rng.range(1, 2);
        for (int q = 0; q < nd; q++) {
          Disc d;
          d.k = leaves[rng.below(leaves.size())];
          d.on = rng.chance(500) ? -1 : r.reqs[rng.below(r.reqs.size())].k;
          d.mod = (unsigned)rng.range(1, 3);
          d.rem = (unsigned)rng.below(d.mod);
          r.disc.push_back(d);
        }
      }
      if (useCollapse && rng.chance(500)) r.collapse = (unsigned)rng.range(1, 3);
      if (useCollapse && f.hostileValues && rng.chance(120)) r.empty = true;
      if (useForce && rng.chance(300)) r.force = true;
      r.pad = rng.chance(150) ? (unsigned)rng.range(1, 300) : 0;
      computed.push_back(r.id);
    }
    if (allAsync || (asyncPermille > 0 && rng.chance(asyncPermille / 2))) {
      r.mode = (int)rng.range(1, 2);
      r.delayUs = rng.chance(600) ? (unsigned)rng.below(2000) : 0;
    }
    prog.rules[r.id] = r;
  }
  if (useCycles && useDisc && computed.size() >= 2 && rng.chance(500)) {
    // a loop that only ever exists in recorded dependency lists: X reports Y as discovered, Y requests X
    int x = computed[rng.below(computed.size())];
    int y = computed[rng.below(computed.size())];
    if (x != y) {
      if (x > y) std::swap(x, y);
      prog.rules[x].disc.push_back({y, -1, 1, 0});
      bool has = false;
      for (auto& q : prog.rules[y].reqs)
        if (q.k == x) has = true;
      if (!has) prog.rules[y].reqs.push_back({x, REQ});
    }
  }
  if (useCycles && !computed.empty()) {
    // add 1-2 back edges (static, dynamic or order-only)
    int nb = (int)rng.range(1, 2);
    for (int b = 0; b < nb; b++) {
      int from = computed[rng.below(computed.size())];
      int to = computed[rng.below(computed.size())];
      if (to < from) std::swap(from, to); // from (lower id) requests to (higher id): closes a cycle if to reaches from
      RuleSpec& r = prog.rules[from];
      if (useDyn && rng.chance(400) && !r.reqs.empty()) {
        Dyn d;
        d.on = r.reqs[0].k;
        d.mod = (unsigned)rng.range(1, 2);
        d.rem = 0;
        d.k = to;
        d.t = useSingle && rng.chance(300) ? SINGLE : REQ;
        r.dyn.push_back(d);
      } else {
        r.reqs.push_back({to, rng.chance(200) ? FOLLOW : useSingle && rng.chance(300) ? SINGLE : REQ});
      }
    }
  }
  prog.normalise();

  Json rules = Json::arr();
  for (auto& e : prog.rules) rules.push(e.second.toJson());
  plan.set("rules", rules);

  // initial external state
  uint64_t vcounter = 1;
  std::map<int, std::vector<std::string>> past;
  Json ext = Json::arr();
  for (int id : leaves) {
    std::string v = spellValue(rng, vcounter++, valStyle);
    past[id].push_back(v);
    ext.push(Json::obj().set("k", id).set("v", util::hex(v)));
  }
  plan.set("ext", ext);

  // history
  Json hist = Json::arr();
  int nOps = (int)rng.range(f.minOps, f.maxOps);
  int builds = 0;
  auto pickTargetOnce = [&]() -> int {
    if (!computed.empty() && rng.chance(850)) {
      // prefer late (high) rules: they reach more of the graph
      size_t i = computed.size() - 1 - (size_t)rng.below(std::min<size_t>(computed.size(), 3));
      return computed[i];
    }
    return (int)rng.range(1, nKeys);
  };
  // build() reports failure as the empty value, so a rule whose value is empty cannot be told from a failed build: never a target
  auto pickTarget = [&]() -> int {
    int t = pickTargetOnce();
    for (int tries = 0; tries < 16 && prog.rules.count(t) && prog.rules[t].empty; tries++) t = pickTargetOnce();
    if (prog.rules.count(t) && prog.rules[t].empty) t = 1;
    return t;
  };
  int mainTarget = pickTarget();
  auto addBuild = [&]() {
    Json op = Json::obj();
    op.set("op", "build");
    op.set("k", rng.chance(650) ? mainTarget : pickTarget());
    if (f.cancel && rng.chance(f.cancelPermille)) {
      Json c = Json::obj();
      int kind = (int)rng.below(4);
      c.set("kind", kind); // 0: engine callback n, same thread; 1: engine callback n, foreign thread; 2: free-running thread; 3: inside job
      c.set("n", (int64_t)rng.below(40));
      c.set("yields", (int64_t)rng.below(30));
      c.setb("twice", rng.chance(150));
      op.set("cancel", c);
    }
    if (f.lockout && builds > 0 && rng.chance(200)) op.set("intrude", Json::obj().set("mode", (int64_t)rng.below(2)).set("n", (int64_t)rng.below(25)));
    hist.push(op);
    builds++;
  };
  addBuild();
  for (int i = 1; i < nOps; i++) {
    unsigned roll = (unsigned)rng.below(1000);
    if (f.cancel && useDisc && rng.chance(150)) {
      // A rule X reads leaf L directly and reports it as discovered.  L changes; X is made to run for another reason (its
      // stored value is declared invalid once), so it is not preceded by a scan of L; the build is cancelled at a seeded
      // point - possibly right after X completed and before L was brought up to date on its behalf; L goes back to its
      // earlier value.  Whatever completed with the intermediate value must not survive as up to date.
      std::vector<std::pair<int, int>> pairs;
      for (auto& e : prog.rules)
        for (auto& d : e.second.disc)
          if (!e.second.empty) pairs.push_back({e.first, d.k});
      if (!pairs.empty()) {
        auto pr = pairs[rng.below(pairs.size())];
        int x = pr.first, id = pr.second;
        std::string before = past[id].back();
        std::string v = spellValue(rng, vcounter++, valStyle);
        past[id].push_back(v);
        hist.push(Json::obj().set("op", "set").set("k", id).set("v", util::hex(v)));
        if (f.invalidate && rng.chance(800)) hist.push(Json::obj().set("op", "invalidate").set("k", x));
        Json op = Json::obj();
        op.set("op", "build").set("k", rng.chance(600) ? x : mainTarget);
        Json c = Json::obj();
        c.set("kind", (int64_t)rng.below(3)).set("n", (int64_t)rng.below(30)).set("yields", (int64_t)rng.below(30)).setb("twice", false);
        op.set("cancel", c);
        hist.push(op);
        builds++;
        if (f.restart && rng.chance(300)) hist.push(Json::obj().set("op", "restart"));
        past[id].push_back(before);
        hist.push(Json::obj().set("op", "set").set("k", id).set("v", util::hex(before)));
        Json op2 = Json::obj();
        op2.set("op", "build").set("k", rng.chance(600) ? x : mainTarget);
        hist.push(op2);
        builds++;
        continue;
      }
    }
    if (roll < 380) {
      addBuild();
    } else if (roll < 700) {
      int id = leaves[rng.below(leaves.size())];
      std::string v;
      if (past[id].size() > 1 && rng.chance(300)) v = past[id][rng.below(past[id].size())];
      else v = spellValue(rng, vcounter++, valStyle);
      past[id].push_back(v);
      hist.push(Json::obj().set("op", "set").set("k", id).set("v", util::hex(v)));
    } else if (roll < 760 && f.clientVersions && rng.chance(400)) {
      hist.push(Json::obj().set("op", "client_version").set("v", (int64_t)rng.range(1, 4)));
    } else if (roll < 760 && f.lockout && rng.chance(500)) {
      if (rng.chance(600)) hist.push(Json::obj().set("op", "reject_attach").set("v", (int64_t)rng.range(1, 4)));
      else hist.push(Json::obj().set("op", "foreign_schema"));
    } else if (roll < 800 && f.restart) {
      hist.push(Json::obj().set("op", "restart"));
    } else if (roll < 850 && f.invalidate && !computed.empty()) {
      hist.push(Json::obj().set("op", "invalidate").set("k", computed[rng.below(computed.size())]));
    } else if (roll < 900 && f.resig && !computed.empty()) {
      hist.push(Json::obj().set("op", "resig").set("k", computed[rng.below(computed.size())]).set("nonce", (int64_t)rng.range(1, 1000000)));
    } else if (roll < 960 && f.reprog && !computed.empty()) {
      // new program for one computed rule (different requests), still a DAG unless cycles are on
      int id = computed[rng.below(computed.size())];
      RuleSpec r = prog.rules[id];
      r.reqs.clear();
      r.dyn.clear();
      r.disc.clear();
      int lim = useCycles && rng.chance(300) ? nKeys : id - 1;
      int nReq = (int)rng.range(1, 3);
      for (int q = 0; q < nReq; q++) r.reqs.push_back({(int)rng.range(1, std::max(1, lim)), useFollow && rng.chance(200) ? FOLLOW : REQ});
      if (useDisc && rng.chance(400)) r.disc.push_back({leaves[rng.below(leaves.size())], -1, 1, 0});
      r.salt = rng.below(1000);
      hist.push(Json::obj().set("op", "reprog").set("k", id).set("rule", r.toJson()));
    } else {
      addBuild();
    }
  }
  if (builds < 2) addBuild();
  if (opt.property == "C06") {
    // the compared build is the last one: make it do real work in most runs
    if (f.invalidate && computed.size() >= 2 && rng.chance(300)) {
      // Directed tail (seeded change C06-m5): a computed rule I gets a new value in a build aimed at I alone, so its consumers
      // keep an older built-at epoch; in the compared build I and one or two other rules re-run (stored value declared invalid
      // once), I to the value it already has.  Whether a consumer's dependency scan then meets I still in progress or already
      // complete depends on the completion order alone - the outcome must not.
      int I = computed[rng.below(computed.size())];
      for (int tries = 0; tries < 8 && prog.rules[I].empty; tries++) I = computed[rng.below(computed.size())];
      if (prog.rules[I].empty) I = mainTarget;   // (an empty value cannot be told from a failed build: never a target)
      int L = leaves[rng.below(leaves.size())];
      for (int tries = 0; tries < 8 && prog.rules.count(I) && !prog.rules[I].reqs.empty(); tries++) {
        // prefer a leaf I really reads
        auto& rq = prog.rules[I].reqs[rng.below(prog.rules[I].reqs.size())];
        if (std::find(leaves.begin(), leaves.end(), rq.k) != leaves.end()) {
          L = rq.k;
          break;
        }
      }
      std::string v = spellValue(rng, vcounter++, valStyle);
      past[L].push_back(v);
      hist.push(Json::obj().set("op", "set").set("k", L).set("v", util::hex(v)));
      hist.push(Json::obj().set("op", "build").set("k", I));
      builds++;
      hist.push(Json::obj().set("op", "invalidate").set("k", I));
      // the other re-running rule: preferably a computed J that some consumer R of I requests *before* I, so R's scan is parked
      // on J while I - started on behalf of another requester - may or may not have completed
      std::vector<int> before;
      for (auto& e : prog.rules) {
        bool seenI = false;
        std::vector<int> js;
        for (auto& rq : e.second.reqs) {
          if (rq.k == I) {
            seenI = true;
            break;
          }
          if (rq.k != I && prog.rules.count(rq.k) && !prog.rules[rq.k].leaf) js.push_back(rq.k);
        }
        if (seenI) before.insert(before.end(), js.begin(), js.end());
      }
      if (!before.empty() && rng.chance(800)) hist.push(Json::obj().set("op", "invalidate").set("k", before[rng.below(before.size())]));
      int more = (int)rng.range(0, 2);
      for (int q = 0; q < more; q++) hist.push(Json::obj().set("op", "invalidate").set("k", computed[rng.below(computed.size())]));
    }
    if (rng.chance(500)) hist.push(Json::obj().set("op", "restart"));
    else if (rng.chance(600)) hist.push(Json::obj().set("op", "set").set("k", leaves[rng.below(leaves.size())]).set("v", util::hex(spellValue(rng, vcounter++, valStyle))));
    Json op = Json::obj();
    op.set("op", "build").set("k", mainTarget);
    if (rng.chance(350)) {
      // concurrent cancellation calls belong to C06 too: only foreign-thread kinds, outcome comparison is skipped then
      Json c = Json::obj();
      c.set("kind", (int64_t)rng.range(1, 3)).set("n", (int64_t)rng.below(40)).set("yields", (int64_t)rng.below(30)).setb("twice", rng.chance(200));
      op.set("cancel", c);
    } else if (db && rng.chance(400)) {
      // one call of the BuildDB interface fails during this build (the engine's own seam: a client may attach any BuildDB):
      // the engine cancels the build from inside, with completions possibly queued up - it must still come back
      // ... or, one level down, one write / sync of the simulated disk under SQLite fails (EIO, or a full disk)
      static const char* kinds[] = {"set_result", "set_result", "set_result", "set_result", "set_result", "lookup", "build_started", "set_iteration", "vfs_write", "vfs_write", "vfs_sync", "vfs_full"};
      op.set("db_fault", Json::obj().set("kind", kinds[rng.below(12)]).set("nth", (int64_t)rng.below(8)));
    }
    hist.push(op);
    builds++;
  }
  plan.set("history", hist);
  if (opt.property == "C04") {
    // which build's VFS calls are enumerated as kill points (later builds carry more state)
    int b = builds <= 1 ? 1 : (int)rng.range(rng.chance(700) ? 2 : 1, builds);
    plan.set("kill", Json::obj().set("build", b).set("n", -1));
  }
  if (opt.property == "C06") {
    Json seeds = Json::arr();
    int ns = opt.tier == "thorough" ? 12 : 4;
    for (int i = 0; i < ns; i++) seeds.push(Json::num((int64_t)(rng.next() >> 2)));
    plan.set("sched_seeds", seeds);
  }
  return plan;
}

// ------------------------------------------------------------------ execution

namespace {

enum EvKind {
  EV_BUILD_BEGIN, EV_BUILD_END, EV_LOOKUP, EV_CREATE_TASK, EV_VALID, EV_STATUS, EV_REASON, EV_CYCLE, EV_ERROR,
  EV_START, EV_PRIOR, EV_PROVIDE, EV_INPUTS_AVAIL, EV_REQUEST, EV_DISCOVERED, EV_COMPLETE, EV_TASK_DESTROYED,
  EV_SET, EV_RESTART, EV_CANCEL, EV_JOB_START, EV_JOB_END, EV_NOTE
};
const char* evName[] = {"build-begin", "build-end", "lookup", "create-task", "is-valid", "status", "needs-to-run", "cycle", "error",
                        "start", "prior-value", "provide-value", "inputs-available", "request", "discovered", "complete", "task-destroyed",
                        "set", "restart", "cancel", "job-start", "job-end", "note"};

struct Event {
  int kind;
  int build;
  std::string key;
  std::string a;
  int64_t n;
};

struct DepRec {
  std::string key;
  bool orderOnly;
  bool singleUse;
  bool operator==(const DepRec& o) const { return key == o.key && orderOnly == o.orderOnly && singleUse == o.singleUse; }
};

struct ExecRec {
  uint64_t sig;
  std::string value;
  std::vector<DepRec> deps;
  uint64_t builtEpoch, computedEpoch;
};

struct KeyShadow {
  // what the running engine can know (includes completions discarded by a cancelled build)
  bool hasExec = false;        // a processed (IsComplete) execution survives in this lineage
  bool hasValue = false;       // some complete() call delivered a value in this lineage
  std::string value;           // value of the latest complete() call
  uint64_t sig = 0;            // signature at the latest complete() call
  int changedIn = 0;           // build number of the latest complete() that changed the value
  uint64_t changeEpoch = 0;    // engine epoch of the same
  int validatedIn = 0;         // build number of the latest IsUpToDate / IsComplete
  std::vector<DepRec> deps;    // dependency list of the latest processed execution
  bool interrupted = false;    // latest task was created but never processed to completion
  int interruptedIn = 0;       // build number of the latest interruption
};

struct DbRow {
  std::string value;
  uint64_t sig = 0;
  uint64_t builtEpoch = 0, computedEpoch = 0;
  int builtBuild = 0, changedBuild = 0;
  std::vector<DepRec> deps;
};

struct Run;
Run* g_run = nullptr;

class SimTask;

struct TaskState {
  int rid;
  std::string key;
  int build;
  bool started = false, priorGiven = false, inputsAvail = false, completeCalled = false, destroyed = false, anyProvide = false;
  std::map<int, int> outstanding;          // requested id -> type, not yet provided
  std::set<int> requested;
  std::map<int, std::string> delivered;    // REQ inputs delivered
  std::set<int> follows;                   // must-follow keys
  std::vector<DepRec> reqOrder;            // dependency list as requested
  std::vector<DepRec> discovered;
};

class JobDesc : public basic::JobDescriptor {
public:
  std::string name;
  StringRef getOrdinalName() const override { return name; }
  void getShortDescription(SmallVectorImpl<char>& result) const override {
    result.append(name.begin(), name.end());
  }
  void getVerboseDescription(SmallVectorImpl<char>& result) const override {
    result.append(name.begin(), name.end());
  }
};

struct Run : public BuildEngineDelegate, public basic::ExecutionQueueDelegate {
  // plan
  Json plan;
  std::string property;
  Program prog;
  std::map<int, std::string> ext;
  bool useDb = false;
  std::string queueKind = "serial";
  int queueAlg = 0;
  uint32_t clientVersion = 1;
  int syncBeforeBuild = 0;       // builds with index < this run in canonical (sync) mode regardless of rule modes
  bool forceSync = false;
  bool traceOn = false;
  bool restartEveryBuild = false;
  bool dropRestarts = false;
  bool allowCycleBreak = false;
  bool ignoreCancel = false;
  // C20: drive the engine through the libllbuild C interface instead of the C++ one
  bool capi = false;
  bool zeroSignatures = false;       // what core.h can express: rules without signatures
  llb_buildengine_t* cengine = nullptr;
  uint64_t committedEpoch = 0;       // epoch of the last build that reached the database (or ran on this engine)
  bool engineFresh = true;
  std::vector<std::unique_ptr<Rule>> cRules;   // rule logic objects behind llb_rule_t (C mode)

  // engine
  std::unique_ptr<BuildEngine> engine;
  std::string dbPath = "/sim/build.db";
  bool attachFailed = false;
  std::string attachError;

  // state
  RefEval ref, refCore;
  bool refDirty = true;
  std::map<std::string, KeyShadow> mem;
  std::map<std::string, DbRow> dbv, dbCommitted;
  std::map<std::string, std::vector<ExecRec>> allExecs;
  std::set<std::string> invalidOnce;      // keys whose isResultValid returns false at the next scan
  int buildNo = 0;
  bool inBuild = false;
  std::string targetKey;
  int targetId = 0;
  uint64_t engineEpoch = 0;
  int cbCount = 0;             // engine->harness callbacks in this build
  std::map<std::string, int> createCount;
  std::map<std::string, std::pair<int, std::string>> reasons;
  std::set<std::string> invalidReported;
  bool cycleReported = false, errorReported = false;
  std::vector<std::string> cycleKeys;
  std::string lastError;
  std::map<std::string, std::set<std::string>> requestedThisBuild; // key -> keys its task requested
  std::vector<std::unique_ptr<TaskState>> tasks;
  int openTasks = 0;
  int computingNow = 0, maxComputing = 0;
  bool prevBuildCancelled = false;
  bool anyCancelEver = false;

  // cancellation
  struct CancelSpec {
    bool on = false;
    int kind = 0;
    int n = 0;
    int yields = 0;
    bool twice = false;
  } cancel;
  bool cancelIssued = false, cancelReturned = false, cancelOnEngineThread = false;
  int cbAtCancel = -1;
  bool nullBuildExpected = false;
  bool changedSince = true;
  std::string lastOkTarget;
  int restartsDone = 0;
  int versionChanges = 0;
  uint32_t diskClientVersion = 0;
  std::set<std::string> completedThisBuild;   // keys whose IsComplete was delivered in the current build
  bool diskSchemaForeign = false;       // info.version was rewritten by a "different llbuild"
  struct IntrudeSpec {
    bool on = false;
    int mode = 0;   // 0: a second engine attaches during the build; 1: attached before, builds during
    int n = 0;      // engine callback after which it happens
    bool done = false;
  } intrude;
  std::unique_ptr<BuildEngine> intruder;
  void doIntrude();
  void opRejectAttach(const Json& op);
  void opForeignSchema();
  int skippedAfterRestart = 0;
  bool restartedSinceBuild = false;
  bool cancelGo = false, cancelDone = true, cancelAbort = false;
  int jobsSeen = 0;

  // per-build summaries (C03/C06 comparisons)
  struct BuildSummary {
    std::string target;
    bool ok = false;
    std::string result;
    std::set<std::string> executed;
    std::map<std::string, int> reason;
    uint64_t evhash = 0;                        // events of the build except rule lookups (C03)
    std::multiset<std::string> provides;        // task|input|value (C06)
    bool cancelled = false, cycle = false, error = false;
    bool operator==(const BuildSummary& o) const {
      return target == o.target && ok == o.ok && result == o.result && executed == o.executed && reason == o.reason;
    }
  };
  std::vector<BuildSummary> summaries;

  // crash simulation (C04)
  int killBuild = 0;            // 1-based build number whose VFS calls are kill points (0: none)
  int64_t killAt = -1;          // kill before this VFS call of that build (-1: dry run, only count)
  int64_t vfsInWindow = 0;      // VFS calls counted in the window
  bool windowOpen = false;
  bool killed = false;
  // one failing call of the BuildDB interface (db_fault on a build op)
  struct DbFault {
    bool armed = false, fired = false;
    std::string kind;
    int nth = 0, seen = 0;
  } dbFault;
  bool stopRun = false;
  bool planHasDbFault = false;
  bool dbFaultHit(const char* kind) {
    if (!dbFault.armed || dbFault.fired || dbFault.kind != kind) return false;
    if (dbFault.seen++ != dbFault.nth) return false;
    dbFault.fired = true;
    return true;
  }
  int64_t firstWriteAt = -1;    // index of the first write call in the window
  std::unique_ptr<simfs::FS> survivor;
  std::map<uint64_t, int> epochBuild;
  bool crashed = false;
  void crashAndRecover();

  // events
  util::Hasher buildEvh;
  std::multiset<std::string> buildProvides;
  util::Hasher evh;
  std::vector<Event> events;
  uint64_t seq = 0;

  // result
  RunResult res;
  bool verdict = false;
  std::map<std::string, uint64_t>& ctr() { return res.counters; }

  // non-triviality probes
  int incrementalMixed = 0;    // builds where some rule was skipped and some executed
  int reasonInputRebuilt = 0, cleanWithRevalidatedInput = 0;
  int restartsWithSkip = 0;

  explicit Run(const Json& p) : plan(p) {}

  // ---- helpers
  void ev(int kind, const std::string& key, const std::string& a = "", int64_t n = 0) {
    if (events.size() < 20000) events.push_back({kind, buildNo, key, a, n});
    // The order in which a cancelled build destroys its tasks is the iteration order of a
    // pointer-keyed hash map inside the engine (heap-layout dependent, semantically irrelevant):
    // destruction events are logged but kept out of the hashes.
    if (kind == EV_TASK_DESTROYED) return;
    evh.u64((uint64_t)kind);
    evh.u64((uint64_t)buildNo);
    evh.str(key);
    evh.str(a);
    evh.u64((uint64_t)n);
    if (kind != EV_LOOKUP && !(zeroSignatures && (kind == EV_REASON || kind == EV_PRIOR))) {
      buildEvh.u64((uint64_t)kind);
      buildEvh.str(key);
      buildEvh.str(a);
      buildEvh.u64((uint64_t)n);
    }
    seq++;
  }

  std::string renderTail(size_t n = 60) const {
    std::string o;
    size_t from = events.size() > n ? events.size() - n : 0;
    for (size_t i = from; i < events.size(); i++) {
      const Event& e = events[i];
      o += "  [" + std::to_string(e.build) + "] " + evName[e.kind] + " " + util::printable(e.key, 24);
      if (!e.a.empty()) o += " " + util::printable(e.a, 40);
      if (e.n) o += " n=" + std::to_string(e.n);
      o += "\n";
    }
    return o;
  }

  void viol(const std::string& clauseIn, const std::string& detail) {
    std::string clause = clauseIn;
    // the continuation after a simulated crash is judged by C01's oracle but belongs to C04
    if (property == "C20" && clause == "C03.2") clause = "C20.3";
    if (property == "C04" && crashed) {
      if (clause == "C01.1" || clause == "C01.2") clause = "C04.5";
      else if (clause == "C03.2") clause = "C04.4";
    }
    // after an injected database failure only "the build came back and left nothing behind" is judged: what the engine
    // believes about rules whose stored result it could not read or write is not modelled
    if (dbFault.fired && clause != "C06.2" && clause != "C05.3") return;
    bool mine = clause.compare(0, property.size() + 1, property + ".") == 0;
    if (mine) {
      if (!verdict) {
        verdict = true;
        res.status = "viol";
        res.clause = clause;
        res.detail = detail + "\n--- last events ---\n" + renderTail();
      }
    } else {
      std::string c = clause;
      if (std::find(res.incidental.begin(), res.incidental.end(), c) == res.incidental.end()) res.incidental.push_back(c);
    }
  }

  void refreshRef() {
    if (refDirty) {
      ref.reset(&prog, &ext);
      refCore.reset(&prog, &ext);
      refCore.skipSingleUse = true;
      refDirty = false;
    }
  }
  EvalResult evalRef(int id) {
    refreshRef();
    return ref.eval(id);
  }
  // evaluation that does not follow single-use requests (see RefEval::skipSingleUse)
  EvalResult evalCore(int id) {
    refreshRef();
    return refCore.eval(id);
  }

  bool ruleSync(const RuleSpec& r) const { return forceSync || (buildNo <= syncBeforeBuild) || r.mode == 0; }

  void engineCallback(const char* where);

  // ---- BuildEngineDelegate
  std::unique_ptr<basic::ExecutionQueue> createExecutionQueue() override;
  std::unique_ptr<Rule> lookupRule(const KeyType& key) override;
  void determinedRuleNeedsToRun(Rule* rule, Rule::RunReason reason, Rule* inputRule) override;
  bool shouldResolveCycle(const std::vector<Rule*>& items, Rule* candidate, Rule::CycleAction action) override {
    engineCallback("shouldResolveCycle");
    return allowCycleBreak;
  }
  void cycleDetected(const std::vector<Rule*>& items) override;
  void error(const llvm::Twine& message) override {
    errorReported = true;
    lastError = message.str();
    ev(EV_ERROR, "", lastError);
  }

  // ---- ExecutionQueueDelegate
  void queueJobStarted(basic::JobDescriptor*) override {}
  void queueJobFinished(basic::JobDescriptor*) override {}
  void processStarted(basic::ProcessContext*, basic::ProcessHandle, llbuild_pid_t) override {}
  void processHadError(basic::ProcessContext*, basic::ProcessHandle, const Twine&) override {}
  void processHadOutput(basic::ProcessContext*, basic::ProcessHandle, StringRef) override {}
  void processFinished(basic::ProcessContext*, basic::ProcessHandle, const basic::ProcessResult&) override {}

  // ---- ops
  void load();
  void ensureEngine();
  void dropEngine();
  void opBuild(const Json& op);
  void afterBuild(const ValueType& result);
  void checkDatabase(const char* when);
  void doCancel(bool engineThread);
  void doRestart();
  std::string finalDbDump;
  std::string dumpDatabase();
  void execute();
  void finishResult();
};

JobDesc g_jobDesc;

// ---- Rule / Task implementations

class SimRule : public Rule {
public:
  Run* run;
  int rid; // -1: unknown key
  SimRule(Run* run, const KeyType& key, uint64_t sig, int rid) : Rule(key, basic::CommandSignature(sig)), run(run), rid(rid) {}
  Task* createTask(BuildEngine&) override { return doCreateTask(); }
  bool isResultValid(BuildEngine&, const ValueType& value) override { return doIsResultValid(value); }
  void updateStatus(BuildEngine&, StatusKind status) override { doUpdateStatus(status); }
  Task* doCreateTask();
  bool doIsResultValid(const ValueType& value);
  void doUpdateStatus(StatusKind status);
};

class SimTask : public Task {
public:
  Run* run;
  TaskState* st;
  SimTask(Run* run, TaskState* st) : run(run), st(st) {}
  ~SimTask() override {
    st->destroyed = true;
    run->openTasks--;
    run->ev(EV_TASK_DESTROYED, st->key);
  }
  void request(TaskInterface ti, int k, int t);
  void start(TaskInterface ti) override;
  void providePriorValue(TaskInterface ti, const ValueType& value) override;
  void provideValue(TaskInterface ti, uintptr_t inputID, const KeyType& key, const ValueType& value) override;
  void inputsAvailable(TaskInterface ti) override;
};

std::string toStr(const ValueType& v) { return std::string(v.begin(), v.end()); }
ValueType toVal(const std::string& s) { return ValueType(s.begin(), s.end()); }

void Run::engineCallback(const char* where) {
  cbCount++;
  if (!inBuild && (engine || cengine)) viol("C05.2", std::string("engine callback '") + where + "' delivered while no build is running");
  // createExecutionQueue is called with the engine's queue mutex held: cancelling from inside that one
  // delegate callback self-deadlocks by construction and is not a task callback (outside C05's quantifier)
  bool inQueueFactory = !strcmp(where, "createExecutionQueue");
  if (inBuild && intrude.on && !intrude.done && cbCount > intrude.n && !inQueueFactory) doIntrude();
  if (inBuild && cancel.on && !cancelIssued && (cancel.kind == 0 || cancel.kind == 1) && cbCount > cancel.n &&
      !(inQueueFactory && cancel.kind == 0)) {
    if (cancel.kind == 0) {
      doCancel(true);
    } else {
      cancelGo = true;
    }
  }
  // every engine callback is a scheduling point: foreign threads can act between any two callbacks
  sim::yield(where);
}

void Run::doCancel(bool engineThread) {
  cancelIssued = true;
  anyCancelEver = true;
  cancelOnEngineThread = engineThread;
  ev(EV_CANCEL, "", engineThread ? "engine-thread" : "foreign-thread", cbCount);
  ctr()[engineThread ? "cancel_engine_thread" : "cancel_foreign_thread"]++;
  // probes: what was the engine doing?
  int waiting = 0, computing = 0;
  for (auto& t : tasks)
    if (t->build == buildNo && !t->destroyed) {
      if (t->inputsAvail && !t->completeCalled) computing++;
      else if (t->started && !t->inputsAvail) waiting++;
    }
  if (waiting) ctr()["cancel_with_waiting_tasks"]++;
  if (computing) ctr()["cancel_with_computing_tasks"]++;
  if (waiting && computing) ctr()["cancel_with_waiting_and_computing"]++;
  engine->cancelBuild();
  if (cancel.twice) engine->cancelBuild();
  cancelReturned = true;
  cbAtCancel = cbCount;
}

// An execution queue without threads: jobs run inline.  Used by the canonical (synchronous) variants so
// that they contain no scheduling decision at all.
class InlineQueue : public basic::ExecutionQueue {
  struct Ctx : public basic::QueueJobContext {
    unsigned laneID() const override { return 0; }
  };
public:
  explicit InlineQueue(basic::ExecutionQueueDelegate& d) : ExecutionQueue(d) {}
  void addJob(basic::QueueJob job, basic::QueueJobPriority) override {
    Ctx c;
    job.execute(&c);
  }
  void cancelAllJobs() override {}
  void executeProcess(basic::QueueJobContext*, ArrayRef<StringRef>, ArrayRef<std::pair<StringRef, StringRef>>, basic::ProcessAttributes,
                      llvm::Optional<basic::ProcessCompletionFn> completionFn, basic::ProcessDelegate*) override {
    if (completionFn.hasValue()) completionFn.getValue()(basic::ProcessResult::makeFailed());
  }
};

std::unique_ptr<basic::ExecutionQueue> Run::createExecutionQueue() {
  engineCallback("createExecutionQueue");
  static const char* env[] = {nullptr};
  if (queueKind == "inline") return std::unique_ptr<basic::ExecutionQueue>(new InlineQueue(*this));
  sim::set_child_role("queue");
  struct Clear { ~Clear() { sim::set_child_role(""); } } clear;
  if (queueKind == "serial") return basic::createSerialQueue(*this, env);
  int lanes = queueKind == "lane1" ? 1 : queueKind == "lane2" ? 2 : queueKind == "lane3" ? 3 : 4;
  return std::unique_ptr<basic::ExecutionQueue>(basic::createLaneBasedExecutionQueue(
      *this, lanes, queueAlg ? basic::SchedulerAlgorithm::FIFO : basic::SchedulerAlgorithm::NamePriority,
      basic::QualityOfService::Normal, env));
}

std::unique_ptr<Rule> Run::lookupRule(const KeyType& key) {
  int id = prog.idOf(key.str());
  ev(EV_LOOKUP, key.str());
  uint64_t sig = 1;
  if (id >= 0) sig = prog.get(id)->signature();
  if (zeroSignatures) sig = 0;
  return std::unique_ptr<Rule>(new SimRule(this, key, sig, id));
}

Task* SimRule::doCreateTask() {
  Run* r = run;
  const std::string& k = key.str();
  r->ev(EV_CREATE_TASK, k);
  int c = ++r->createCount[k];
  if (c > 1) r->viol("C02.1", "rule " + util::printable(k) + " executed " + std::to_string(c) + " times in build " + std::to_string(r->buildNo));
  auto it = r->reasons.find(k);
  if (it == r->reasons.end() && !r->capi)
    r->viol("C02.2", "rule " + util::printable(k) + " executed without a reported reason in build " + std::to_string(r->buildNo));
  KeyShadow& m = r->mem[k];
  m.interrupted = true; // until processed to completion
  m.interruptedIn = r->buildNo;
  auto st = std::unique_ptr<TaskState>(new TaskState());
  st->rid = rid;
  st->key = k;
  st->build = r->buildNo;
  TaskState* sp = st.get();
  r->tasks.push_back(std::move(st));
  r->openTasks++;
  r->engineCallback("createTask");
  return new SimTask(r, sp);
}

bool SimRule::doIsResultValid(const ValueType& value) {
  Run* r = run;
  const std::string& k = key.str();
  bool valid = true;
  const RuleSpec* spec = rid >= 0 ? r->prog.get(rid) : nullptr;
  if (spec && spec->leaf) {
    auto it = r->ext.find(rid);
    std::string cur = it == r->ext.end() ? std::string("-") : it->second;
    valid = toStr(value) == cur;
  } else if (r->invalidOnce.count(k)) {
    r->invalidOnce.erase(k);
    valid = false;
  }
  if (!valid) r->invalidReported.insert(k);
  r->ev(EV_VALID, k, valid ? "valid" : "invalid");
  r->engineCallback("isResultValid");
  return valid;
}

void SimRule::doUpdateStatus(StatusKind status) {
  Run* r = run;
  const std::string& k = key.str();
  r->ev(EV_STATUS, k, status == StatusKind::IsScanning ? "scanning" : status == StatusKind::IsUpToDate ? "up-to-date" : "complete");
  KeyShadow& m = r->mem[k];
  if (status == StatusKind::IsUpToDate) {
    // probe: scanned clean although an input was re-validated in this same build
    for (auto& d : m.deps) {
      auto it = r->mem.find(d.key);
      if (it != r->mem.end() && it->second.validatedIn == r->buildNo) {
        r->cleanWithRevalidatedInput++;
        break;
      }
    }
    m.validatedIn = r->buildNo;
  } else if (status == StatusKind::IsComplete) {
    // processed completion: find the task
    TaskState* ts = nullptr;
    for (auto it = r->tasks.rbegin(); it != r->tasks.rend(); ++it)
      if ((*it)->key == k && (*it)->build == r->buildNo) {
        ts = it->get();
        break;
      }
    m.validatedIn = r->buildNo;
    m.hasExec = true;
    m.interrupted = false;
    r->completedThisBuild.insert(k);
    if (ts) {
      m.deps = ts->reqOrder;
      m.deps.insert(m.deps.end(), ts->discovered.begin(), ts->discovered.end());
    }
    DbRow& row = r->dbv[k];
    row.value = m.value;
    row.sig = m.sig;
    row.builtEpoch = r->engineEpoch;
    row.computedEpoch = m.changeEpoch;
    row.builtBuild = r->buildNo;
    row.changedBuild = m.changedIn;
    row.deps = m.deps;
    ExecRec er;
    er.sig = row.sig;
    er.value = row.value;
    er.deps = row.deps;
    er.builtEpoch = row.builtEpoch;
    er.computedEpoch = row.computedEpoch;
    r->allExecs[k].push_back(er);
  }
  r->engineCallback("updateStatus");
}

void Run::determinedRuleNeedsToRun(Rule* rule, Rule::RunReason reason, Rule* inputRule) {
  const std::string& k = rule->key.str();
  std::string in = inputRule ? inputRule->key.str() : std::string();
  static const char* names[] = {"never-built", "signature-changed", "invalid-value", "input-rebuilt", "forced"};
  ev(EV_REASON, k, std::string(names[(int)reason]) + (inputRule ? ":" + in : ""));
  if (reasons.count(k))
    viol("C02.2", "two needs-to-run reports for " + util::printable(k) + " in one build");
  reasons[k] = {(int)reason, in};
  KeyShadow& m = mem[k];
  uint64_t curSig = rule->signature.value;
  std::string why;
  if (!m.interrupted) {
    switch (reason) {
    case Rule::RunReason::NeverBuilt:
      if (m.hasExec) why = "reported never-built, but a completed execution of this rule survives (build " + std::to_string(m.validatedIn) + ")";
      break;
    case Rule::RunReason::SignatureChanged:
      if (!m.hasExec) why = "reported signature-changed for a rule with no surviving execution";
      else if (m.sig == curSig) why = "reported signature-changed, but the signature equals the one of its last execution";
      break;
    case Rule::RunReason::InvalidValue:
      if (!invalidReported.count(k)) why = "reported invalid-value, but the rule's validity check did not return false in this build";
      break;
    case Rule::RunReason::InputRebuilt: {
      reasonInputRebuilt++;
      bool found = false;
      for (auto& d : m.deps)
        if (d.key == in && !d.orderOnly && !d.singleUse) found = true;
      auto it = mem.find(in);
      if (!found) {
        bool orderOnly = false;
        for (auto& d : m.deps)
          if (d.key == in) orderOnly = true;
        why = std::string("reported input-rebuilt for ") + util::printable(in) +
              (orderOnly ? ", which is only an order-only/single-use dependency" : ", which is not a recorded dependency");
      } else if (it == mem.end() || !(it->second.changedIn > m.validatedIn)) {
        // (an input whose execution was interrupted keeps its old value in the engine, and completions that a
        // cancelled build discarded are tracked by the shadow's value too: no exemption is needed here)
        why = "reported input-rebuilt for " + util::printable(in) + ", whose value last changed in build " +
              std::to_string(it == mem.end() ? 0 : it->second.changedIn) + ", not after this rule was brought up to date in build " +
              std::to_string(m.validatedIn);
      }
      break;
    }
    case Rule::RunReason::Forced:
      if (!allowCycleBreak) why = "reported forced although cycle breaking is refused";
      break;
    }
  }
  if (!why.empty()) viol("C02.3", "rule " + util::printable(k) + ": " + why);
  engineCallback("determinedRuleNeedsToRun");
}

void Run::cycleDetected(const std::vector<Rule*>& items) {
  cycleReported = true;
  cycleKeys.clear();
  std::string txt;
  for (auto* r : items) {
    cycleKeys.push_back(r->key.str());
    txt += util::printable(r->key.str(), 16) + ">";
  }
  ev(EV_CYCLE, "", txt);
  ctr()["cycle_reports"]++;
  // C07.1 well-formedness
  std::string why;
  if (items.empty()) {
    // (this was known finding C07.K1 until fix dbafe30 in /repo: requested key already complete, cycle reachable only through a
    // dependency that a completed task reported as discovered)
    why = "empty cycle list";
  } else if (cycleKeys[0] != targetKey) why = "list does not start at the requested key";
  else {
    bool repeats = false;
    for (size_t i = 0; i + 1 < cycleKeys.size(); i++)
      if (cycleKeys[i] == cycleKeys.back()) repeats = true;
    if (!repeats) why = "last key does not repeat an earlier one";
    for (size_t i = 0; i + 1 < cycleKeys.size() && why.empty(); i++) {
      const std::string& a = cycleKeys[i];
      const std::string& b = cycleKeys[i + 1];
      bool requested = requestedThisBuild[a].count(b) > 0;
      bool recorded = false;
      auto it = mem.find(a);
      if (it != mem.end())
        for (auto& d : it->second.deps)
          if (d.key == b) recorded = true;
      // dependency lists loaded from the database for keys whose shadow was rolled back
      auto dit = dbCommitted.find(a);
      if (dit != dbCommitted.end())
        for (auto& d : dit->second.deps)
          if (d.key == b) recorded = true;
      if (!requested && !recorded)
        why = "pair (" + util::printable(a, 16) + " -> " + util::printable(b, 16) + ") is neither a request made in this build nor a recorded dependency";
    }
  }
  if (!why.empty()) viol("C07.1", "malformed cycle report [" + txt + "]: " + why);
  // C07.3: no cycle in the union of current potential edges and recorded edges => false report
  {
    std::map<std::string, std::set<std::string>> g;
    std::map<int, std::set<int>> pe;
    potentialEdges(prog, &pe);
    // A wait-for edge is either a request made by a task that runs in this build, or the scan of a recorded dependency -
    // and single-use dependencies are dropped from a record before it is scanned.
    for (auto& e : pe)
      for (int t : e.second)
        if (prog.get(e.first) && prog.get(t) && createCount.count(prog.get(e.first)->key)) g[prog.get(e.first)->key].insert(prog.get(t)->key);
    for (auto& e : mem)
      for (auto& d : e.second.deps)
        if (!d.singleUse) g[e.first].insert(d.key);
    for (auto& e : dbCommitted)
      for (auto& d : e.second.deps)
        if (!d.singleUse) g[e.first].insert(d.key);
    // DFS cycle detection
    std::map<std::string, int> color;
    bool cyc = false;
    std::function<void(const std::string&)> dfs = [&](const std::string& u) {
      color[u] = 1;
      for (auto& v : g[u]) {
        if (cyc) return;
        int c = color[v];
        if (c == 1) { cyc = true; return; }
        if (c == 0) dfs(v);
      }
      color[u] = 2;
    };
    for (auto& e : g)
      if (!cyc && color[e.first] == 0) dfs(e.first);
    if (!cyc) viol("C07.3", "cycle reported [" + txt + "] but neither the current rules nor any recorded dependency list contain a cycle");
  }
  engineCallback("cycleDetected");
}

void SimTask::request(TaskInterface ti, int k, int t) {
  const RuleSpec* target = run->prog.get(k);
  if (!target) return;
  if (!st->requested.insert(k).second) return;
  st->outstanding[k] = t;
  if (t == FOLLOW) st->follows.insert(k);
  st->reqOrder.push_back({target->key, t == FOLLOW, t == SINGLE});
  run->requestedThisBuild[st->key].insert(target->key);
  run->ev(EV_REQUEST, st->key, target->key, t);
  if (run->capi) {
    llb_task_interface_t cti = *reinterpret_cast<llb_task_interface_t*>(&ti);
    llb_data_t kd{target->key.size(), (const uint8_t*)target->key.data()};
    if (t == FOLLOW) llb_buildengine_task_must_follow(cti, &kd);
    else llb_buildengine_task_needs_input(cti, &kd, (uintptr_t)k);   // core.h has no single-use request
  } else if (t == REQ) ti.request(KeyType(target->key), (uintptr_t)k);
  else if (t == SINGLE) ti.requestSingleUse(KeyType(target->key), (uintptr_t)k);
  else ti.mustFollow(KeyType(target->key));
}

void SimTask::start(TaskInterface ti) {
  run->ev(EV_START, st->key);
  if (st->started) run->viol("C06.2", "start delivered twice to " + util::printable(st->key));
  st->started = true;
  run->engineCallback("start");
  const RuleSpec* r = st->rid >= 0 ? run->prog.get(st->rid) : nullptr;
  if (r && !r->leaf)
    for (auto& q : r->reqs) request(ti, q.k, q.t);
}

void SimTask::providePriorValue(TaskInterface, const ValueType& value) {
  run->ev(EV_PRIOR, st->key, toStr(value));
  if (!st->started || st->anyProvide || st->inputsAvail || st->priorGiven)
    run->viol("C06.2", "prior value for " + util::printable(st->key) + " delivered out of order (must follow start immediately, once)");
  st->priorGiven = true;
  // the prior value must be the value of the latest completion of this rule in this lineage
  KeyShadow& m = run->mem[st->key];
  if (!m.hasValue) run->viol("C06.2", "prior value delivered to " + util::printable(st->key) + " although no earlier result exists");
  else if (m.value != toStr(value)) run->viol("C06.2", "prior value delivered to " + util::printable(st->key) + " is not its previous result");
  run->engineCallback("providePriorValue");
}

void SimTask::provideValue(TaskInterface ti, uintptr_t inputID, const KeyType& key, const ValueType& value) {
  std::string v = toStr(value);
  run->ev(EV_PROVIDE, st->key, key.str() + "=" + v, (int64_t)inputID);
  run->buildProvides.insert(st->key + "|" + key.str() + "|" + v);
  st->anyProvide = true;
  int k = (int)inputID;
  auto it = st->outstanding.find(k);
  const RuleSpec* target = run->prog.get(k);
  if (!st->started || st->inputsAvail)
    run->viol("C06.2", "input delivered to " + util::printable(st->key) + " outside start..inputs-available");
  if (it == st->outstanding.end() || !target || target->key != key.str())
    run->viol("C06.2", "input " + util::printable(key.str()) + " (id " + std::to_string(k) + ") delivered to " + util::printable(st->key) +
                           " was not requested, was already delivered, or carries the wrong key");
  else if (it->second == FOLLOW)
    run->viol("C06.2", "value delivered for must-follow key " + util::printable(key.str()));
  if (target) {
    EvalResult e = run->evalCore(k);
    if (!e.cyclic && e.value != v)
      run->viol(run->anyCancelEver && run->property == "C05" ? "C05.5" : "C01.2",
                "task " + util::printable(st->key) + " was handed a stale value for input " + util::printable(key.str()) + ": got " +
                    util::printable(v) + ", current value is " + util::printable(e.value));
  }
  int t = it != st->outstanding.end() ? it->second : REQ;
  if (it != st->outstanding.end()) st->outstanding.erase(it);
  run->engineCallback("provideValue");
  const RuleSpec* r = st->rid >= 0 ? run->prog.get(st->rid) : nullptr;
  if (t == REQ) {
    st->delivered[k] = v;
    if (r)
      for (auto& d : r->dyn)
        if (d.on == k && pred(v, d.mod, d.rem)) request(ti, d.k, d.t);
  }
}

void SimTask::inputsAvailable(TaskInterface ti) {
  Run* r = run;
  r->ev(EV_INPUTS_AVAIL, st->key);
  if (!st->started) r->viol("C06.2", "inputs-available before start for " + util::printable(st->key));
  if (st->inputsAvail) r->viol("C06.2", "inputs-available delivered twice to " + util::printable(st->key));
  for (auto& o : st->outstanding)
    if (o.second != FOLLOW)
      r->viol("C06.2", "inputs-available for " + util::printable(st->key) + " before requested input id " + std::to_string(o.first) + " was delivered");
  // every must-follow key must be complete (brought up to date in this build)
  for (int f : st->follows) {
    const RuleSpec* t = r->prog.get(f);
    if (!t) continue;
    auto it = r->mem.find(t->key);
    if (it == r->mem.end() || it->second.validatedIn != r->buildNo)
      r->viol("C06.2", "inputs-available for " + util::printable(st->key) + " before must-follow key " + util::printable(t->key) + " completed");
  }
  st->inputsAvail = true;
  r->computingNow++;
  if (r->computingNow > r->maxComputing) r->maxComputing = r->computingNow;
  r->engineCallback("inputsAvailable");

  const RuleSpec* spec = st->rid >= 0 ? r->prog.get(st->rid) : nullptr;
  // compute the value and the discovered reads now (external state is stable during a build)
  std::string value;
  std::vector<std::string> discKeys;
  bool force = false;
  int mode = 0;
  unsigned delayUs = 0;
  if (!spec) {
    value = RefEval::missingValue(st->key);
  } else if (spec->leaf) {
    auto it = r->ext.find(spec->id);
    value = it == r->ext.end() ? std::string("-") : it->second;
    mode = r->ruleSync(*spec) ? 0 : spec->mode;
    delayUs = spec->delayUs;
  } else {
    std::map<int, std::string> reads;
    for (auto& d : spec->disc) {
      bool on = d.on < 0;
      if (!on) {
        auto it = st->delivered.find(d.on);
        on = it != st->delivered.end() && pred(it->second, d.mod, d.rem);
      }
      if (!on) continue;
      const RuleSpec* t = r->prog.get(d.k);
      if (!t) continue;
      discKeys.push_back(t->key);
      // a discovered dependency on a computed key is only reported ("re-run me when it changes"), never read
      if (!t->leaf) continue;
      auto it = r->ext.find(d.k);
      reads[d.k] = it == r->ext.end() ? std::string("-") : it->second;
    }
    value = computeValue(*spec, st->delivered, reads);
    force = spec->force;
    mode = r->ruleSync(*spec) ? 0 : spec->mode;
    delayUs = spec->delayUs;
  }
  for (auto& dk : discKeys) st->discovered.push_back({dk, false, false});

  TaskState* ts = st;
  std::string key = st->key;
  uint64_t sig = spec ? spec->signature() : 1;
  if (r->zeroSignatures) sig = 0;
  auto work = [r, ts, key, value, discKeys, force, ti, delayUs, sig](bool async) mutable {
    if (async) {
      if (delayUs) sim::sleep_ns((uint64_t)delayUs * 1000ULL);
      sim::yield("job");
      if (r->cancel.on && r->cancel.kind == 3 && !r->cancelIssued && ++r->jobsSeen > r->cancel.n % 4) r->doCancel(false);
    }
    for (auto& dk : discKeys) {
      r->ev(EV_DISCOVERED, key, dk);
      if (r->capi) {
        llb_data_t kd{dk.size(), (const uint8_t*)dk.data()};
        llb_buildengine_task_discovered_dependency(*reinterpret_cast<llb_task_interface_t*>(&ti), &kd);
      } else {
        ti.discoveredDependency(KeyType(dk));
      }
      if (async) sim::yield("discovered");
    }
    // shadow of what the engine does inside complete(): value/signature/changed epoch move now,
    // whether or not the completion is later processed
    KeyShadow& m = r->mem[key];
    std::string prev = m.hasValue ? m.value : std::string();
    bool changed = force || value != prev;
    m.hasValue = true;
    m.value = value;
    m.sig = sig;
    if (changed) {
      m.changedIn = r->buildNo;
      m.changeEpoch = r->engineEpoch;
    }
    ts->completeCalled = true;
    r->computingNow--;
    r->ev(EV_COMPLETE, key, value, force);
    if (r->capi) {
      llb_data_t vd{value.size(), (const uint8_t*)value.data()};
      llb_buildengine_task_is_complete(*reinterpret_cast<llb_task_interface_t*>(&ti), &vd, force);
    } else {
      ti.complete(toVal(value), force);
    }
  };
  if (mode == 0) {
    work(false);
  } else if (mode == 1 && !r->capi) {
    ti.spawn(basic::QueueJob(&g_jobDesc, [work](basic::QueueJobContext*) mutable { work(true); }));
  } else {
    sim::spawn("completer", [work]() mutable { work(true); });
  }
}

// ---- tiny delegate for reading the database back with a fresh connection
struct ReadbackDelegate : public BuildDBDelegate {
  llvm::StringMap<bool> table;
  const KeyID getKeyID(const KeyType& key) override {
    auto it = table.insert(std::make_pair(key.str(), false)).first;
    return KeyID(it->getKey().data());
  }
  KeyType getKeyForID(const KeyID key) override {
    return llvm::StringMapEntry<bool>::GetStringMapEntryFromKeyData((const char*)(uintptr_t)key).getKey();
  }
};

void Run::load() {
  property = plan.gets("property");
  const Json* cfg = plan.find("config");
  Json empty = Json::obj();
  if (!cfg) cfg = &empty;
  useDb = cfg->getb("db");
  queueKind = cfg->gets("queue", "serial");
  queueAlg = (int)cfg->getn("alg");
  clientVersion = (uint32_t)cfg->getn("client_version", 1);
  forceSync = cfg->getb("force_sync");
  traceOn = cfg->getb("trace");
  syncBeforeBuild = (int)cfg->getn("sync_before_build", 0);
  if (const Json* kj = plan.find("kill")) {
    killBuild = (int)kj->getn("build");
    killAt = kj->getn("n", -1);
  }
  ignoreCancel = cfg->getb("ignore_cancel");
  for (auto& op : plan.geta("history"))
    if (op.find("db_fault")) planHasDbFault = true;
  capi = cfg->getb("capi");
  zeroSignatures = cfg->getb("zero_signatures");
  restartEveryBuild = cfg->getb("restart_every_build");
  dropRestarts = cfg->getb("drop_restarts");
  for (auto& j : plan.geta("rules")) {
    RuleSpec r = RuleSpec::fromJson(j);
    if (r.id > 0) prog.rules[r.id] = r;
  }
  prog.normalise();
  for (auto& j : plan.geta("ext")) ext[(int)j.getn("k")] = util::unhex(j.gets("v"));
  // every leaf has a value
  for (auto& e : prog.rules)
    if (e.second.leaf && !ext.count(e.first)) ext[e.first] = "init" + std::to_string(e.first);
  util::Hasher sh;
  sh.u64(prog.rules.size());
  for (auto& e : prog.rules) {
    sh.u64(e.second.signature());
    sh.u64((uint64_t)e.second.mode);
  }
  for (auto& j : plan.geta("history")) sh.str(j.gets("op"));
  sh.str(queueKind);
  sh.u64(useDb);
  res.shape = sh.get();
}

// ---- the libllbuild C interface (C20): the same rule/task logic objects sit behind C callbacks
namespace capi_glue {
void taskDestroy(void* ctx) { delete static_cast<SimTask*>(ctx); }
void taskStart(void* ctx, void*, llb_task_interface_t ti) { static_cast<SimTask*>(ctx)->start(*reinterpret_cast<TaskInterface*>(&ti)); }
void taskProvide(void* ctx, void*, llb_task_interface_t ti, uintptr_t inputID, const llb_data_t* value) {
  SimTask* t = static_cast<SimTask*>(ctx);
  // core.h does not pass the key of the input: the client identifies it by the id it chose
  const RuleSpec* target = t->run->prog.get((int)inputID);
  KeyType key(target ? target->key : std::string("?"));
  t->provideValue(*reinterpret_cast<TaskInterface*>(&ti), inputID, key, ValueType(value->data, value->data + value->length));
}
void taskInputsAvailable(void* ctx, void*, llb_task_interface_t ti) { static_cast<SimTask*>(ctx)->inputsAvailable(*reinterpret_cast<TaskInterface*>(&ti)); }
llb_task_t* ruleCreateTask(void* ctx, void*) {
  SimRule* r = static_cast<SimRule*>(ctx);
  Task* logic = r->doCreateTask();
  llb_task_delegate_t d;
  memset(&d, 0, sizeof d);
  d.context = logic;
  d.destroy_context = taskDestroy;
  d.start = taskStart;
  d.provide_value = taskProvide;
  d.inputs_available = taskInputsAvailable;
  return llb_task_create(d);
}
bool ruleIsValid(void* ctx, void*, const llb_rule_t*, const llb_data_t* result) {
  return static_cast<SimRule*>(ctx)->doIsResultValid(ValueType(result->data, result->data + result->length));
}
void ruleStatus(void* ctx, void*, llb_rule_status_kind_t kind) { static_cast<SimRule*>(ctx)->doUpdateStatus((Rule::StatusKind)kind); }
void lookupRule(void* ctx, const llb_data_t* key, llb_rule_t* out) {
  Run* run = static_cast<Run*>(ctx);
  std::unique_ptr<Rule> logic = run->lookupRule(KeyType((const char*)key->data, key->length));
  memset(out, 0, sizeof *out);
  out->context = logic.get();
  out->create_task = ruleCreateTask;
  out->is_result_valid = ruleIsValid;
  out->update_status = ruleStatus;
  run->cRules.push_back(std::move(logic));
}
void engineError(void* ctx, const char* message) { static_cast<Run*>(ctx)->error(llvm::Twine(message)); }
void cycleDetected(void* ctx, const llb_data_t* keys, uint64_t n) {
  Run* run = static_cast<Run*>(ctx);
  // rebuild the rule list from the keys: the logic objects are owned by the run
  std::vector<Rule*> items;
  for (uint64_t i = 0; i < n; i++) {
    std::string k((const char*)keys[i].data, keys[i].length);
    Rule* found = nullptr;
    for (auto& r : run->cRules)
      if (r->key.str() == k) found = r.get();
    if (found) items.push_back(found);
  }
  run->cycleDetected(items);
}
} // namespace capi_glue


// ---- C03: a second engine on the same database file (another process), and databases of another version

namespace {
// What the second engine would run if it were let in: everything it does is a violation.
struct IntruderTask : public Task {
  void start(TaskInterface) override {}
  void providePriorValue(TaskInterface, const ValueType&) override {}
  void provideValue(TaskInterface, uintptr_t, const KeyType&, const ValueType&) override {}
  void inputsAvailable(TaskInterface ti) override { ti.complete(toVal("INTRUDER")); }
};
struct IntruderRule : public Rule {
  explicit IntruderRule(const KeyType& key) : Rule(key, basic::CommandSignature(77)) {}
  Task* createTask(BuildEngine&) override { return new IntruderTask(); }
  bool isResultValid(BuildEngine&, const ValueType&) override { return false; }
};
struct IntruderDelegate : public BuildEngineDelegate, public basic::ExecutionQueueDelegate {
  int lookups = 0, errors = 0;
  std::string lastError;
  void reset() {
    lookups = errors = 0;
    lastError.clear();
  }
  std::unique_ptr<basic::ExecutionQueue> createExecutionQueue() override { return std::unique_ptr<basic::ExecutionQueue>(new InlineQueue(*this)); }
  std::unique_ptr<Rule> lookupRule(const KeyType& key) override {
    lookups++;
    return std::unique_ptr<Rule>(new IntruderRule(key));
  }
  void cycleDetected(const std::vector<Rule*>&) override {}
  void error(const llvm::Twine& message) override {
    errors++;
    lastError = message.str();
  }
  void queueJobStarted(basic::JobDescriptor*) override {}
  void queueJobFinished(basic::JobDescriptor*) override {}
  void processStarted(basic::ProcessContext*, basic::ProcessHandle, llbuild_pid_t) override {}
  void processHadError(basic::ProcessContext*, basic::ProcessHandle, const Twine&) override {}
  void processHadOutput(basic::ProcessContext*, basic::ProcessHandle, StringRef) override {}
  void processFinished(basic::ProcessContext*, basic::ProcessHandle, const basic::ProcessResult&) override {}
};
IntruderDelegate g_intruderDelegate;

std::string fileBytes(const std::string& path) {
  std::string out;
  simfs::fs().readFile(path, &out);
  return out;
}
} // namespace

// Runs on the engine thread, inside a callback of the build that holds the database: whatever the second engine
// tries within SQLite's busy timeout (5 s of simulated time) must fail and must not change the file.
void Run::doIntrude() {
  intrude.done = true;
  std::string before = fileBytes(dbPath), beforeJ = fileBytes(dbPath + "-journal");
  uint64_t t0 = sim::now_ns();
  ev(EV_NOTE, "", intrude.mode == 0 ? "second-engine-attach" : "second-engine-build", cbCount);
  ctr()[intrude.mode == 0 ? "second_engine_attach_during_build" : "second_engine_build_during_build"]++;
  if (intrude.mode == 0) {
    g_intruderDelegate.reset();
    intruder.reset(new BuildEngine(g_intruderDelegate));
    std::string err;
    auto db = createSQLiteBuildDB(dbPath, clientVersion, /*recreateUnmatchedVersion=*/true, &err);
    bool ok = db && intruder->attachDB(std::move(db), &err);
    if (ok) {
      // attached in a gap where no lock was held (before BEGIN): then it must at least be unable to build
      ValueType v = intruder->build(KeyType(targetKey));
      if (!v.empty() || g_intruderDelegate.lookups)
        viol("C03.5", "a second engine attached to the database and ran a build while another build held it");
    } else if (err.empty()) {
      viol("C03.5", "a second engine was refused the database without an error message");
    }
  } else if (intruder) {
    ValueType v = intruder->build(KeyType(targetKey));
    if (!v.empty() || g_intruderDelegate.lookups)
      viol("C03.5", "a second engine (attached earlier) ran a build while another build held the database");
    else if (!g_intruderDelegate.errors)
      viol("C03.5", "a second engine's build was refused without an error report");
  }
  intruder.reset();
  if (fileBytes(dbPath) != before || fileBytes(dbPath + "-journal") != beforeJ)
    viol("C03.5", "the database file (or its journal) changed while a second engine was trying to get in");
  ctr()["second_engine_wait_ms"] += (sim::now_ns() - t0) / 1000000;
}

// A database created under another client version, opened by a client that asked not to recreate it: rejected with an
// error, file untouched.
void Run::opRejectAttach(const Json& op) {
  if (!useDb || diskClientVersion == 0 || attachFailed) return;
  if (engine || cengine) doRestart();
  uint32_t v = (uint32_t)op.getn("v", 1);
  bool sameClient = v == diskClientVersion && !diskSchemaForeign;
  std::string before = fileBytes(dbPath);
  if (before.empty()) return;
  IntruderDelegate del;
  BuildEngine e2(del);
  std::string err;
  auto db = createSQLiteBuildDB(dbPath, v, /*recreateUnmatchedVersion=*/false, &err);
  bool ok = db && e2.attachDB(std::move(db), &err);
  ev(EV_NOTE, "", std::string("attach-no-recreate ") + (ok ? "accepted" : "rejected"), v);
  ctr()[sameClient ? "attach_no_recreate_same_version" : "attach_no_recreate_other_version"]++;
  if (sameClient && !ok) viol("C03.4", "a database of the requested schema and client version was rejected: " + err);
  if (!sameClient && ok) viol("C03.4", "a database written under another schema or client version was accepted by a client that did not ask to recreate it");
  if (!sameClient && !ok && err.empty()) viol("C03.4", "a database of another version was rejected without an error message");
  if (fileBytes(dbPath) != before) viol("C03.4", "opening a database without recreate changed the file");
}

// Another llbuild (other schema version) wrote the file.
void Run::opForeignSchema() {
  if (!useDb || diskClientVersion == 0 || attachFailed) return;
  if (engine || cengine) doRestart();
  sqlite3* h = nullptr;
  if (sqlite3_open(dbPath.c_str(), &h) != SQLITE_OK) return;
  char* msg = nullptr;
  if (sqlite3_exec(h, "UPDATE info SET version = version + 1;", nullptr, nullptr, &msg) == SQLITE_OK) {
    diskSchemaForeign = true;
    ev(EV_NOTE, "", "foreign-schema-version");
    ctr()["foreign_schema_version"]++;
    changedSince = true;
  }
  sqlite3_free(msg);
  sqlite3_close(h);
}

// The real SQLite database behind a wrapper that can make one call of the BuildDB interface fail, the way the engine sees
// any database failure: a false return and a message.
class FaultyDB : public BuildDB {
  std::unique_ptr<BuildDB> impl;
  Run* run;
  bool fail(const char* kind, std::string* error_out) {
    if (!run->dbFaultHit(kind)) return false;
    if (error_out) *error_out = std::string("simulated database failure (") + kind + ")";
    run->ctr()[std::string("db_fault_") + kind]++;
    return true;
  }

public:
  FaultyDB(std::unique_ptr<BuildDB> d, Run* r) : impl(std::move(d)), run(r) {}
  void attachDelegate(BuildDBDelegate* d) override { impl->attachDelegate(d); }
  Epoch getCurrentEpoch(bool* ok, std::string* e) override { return impl->getCurrentEpoch(ok, e); }
  bool setCurrentIteration(uint64_t v, std::string* e) override { return fail("set_iteration", e) ? false : impl->setCurrentIteration(v, e); }
  bool lookupRuleResult(KeyID id, const KeyType& k, Result* r, std::string* e) override { return fail("lookup", e) ? false : impl->lookupRuleResult(id, k, r, e); }
  bool setRuleResult(KeyID id, const Rule& rule, const Result& r, std::string* e) override { return fail("set_result", e) ? false : impl->setRuleResult(id, rule, r, e); }
  bool buildStarted(std::string* e) override { return fail("build_started", e) ? false : impl->buildStarted(e); }
  void buildComplete() override { impl->buildComplete(); }
  bool getKeys(std::vector<KeyType>& k, std::string* e) override { return impl->getKeys(k, e); }
  bool getKeysWithResult(std::vector<KeyType>& k, std::vector<Result>& r, std::string* e) override { return impl->getKeysWithResult(k, r, e); }
  void dump(raw_ostream& os) override { impl->dump(os); }
};

void Run::ensureEngine() {
  if (!engine && !cengine && useDb) {
    // the next attach compares the requested client version with the one the file on disk was created under
    if ((diskClientVersion != 0 && diskClientVersion != clientVersion) || diskSchemaForeign) {
      // never interpreted: the database is recreated empty
      diskSchemaForeign = false;
      mem.clear();
      dbv.clear();
      dbCommitted.clear();
      committedEpoch = 0;
      versionChanges++;
      ctr()["db_recreated_for_version_change"]++;
    }
    diskClientVersion = clientVersion;
  }
  if (capi) {
    if (cengine) return;
    llb_buildengine_delegate_t d;
    memset(&d, 0, sizeof d);
    d.context = this;
    d.lookup_rule = capi_glue::lookupRule;
    d.error = capi_glue::engineError;
    d.cycle_detected = capi_glue::cycleDetected;
    cengine = llb_buildengine_create(d);
    engineFresh = true;
    attachFailed = false;
    if (useDb) {
      llb_data_t pd{dbPath.size(), (const uint8_t*)dbPath.data()};
      char* err = nullptr;
      if (!llb_buildengine_attach_db(cengine, &pd, clientVersion, &err)) {
        attachFailed = true;
        attachError = err ? err : "";
        ev(EV_ERROR, "", "attach: " + attachError);
      }
      free(err);
    }
    return;
  }
  if (engine) return;
  engine.reset(new BuildEngine(*this));
  engineFresh = true;
  attachFailed = false;
  if (traceOn) {
    std::string terr;
    engine->enableTracing("/sim/engine-trace.json", &terr);
    ctr()["engines_with_tracing"]++;
  }
  if (useDb) {
    std::string err;
    auto db = createSQLiteBuildDB(dbPath, clientVersion, /*recreateUnmatchedVersion=*/true, &err);
    if (db && planHasDbFault) db.reset(new FaultyDB(std::move(db), this));
    if (!db || !engine->attachDB(std::move(db), &err)) {
      attachFailed = true;
      attachError = err;
      ev(EV_ERROR, "", "attach: " + err);
    }
  }
}

void Run::dropEngine() {
  if (cengine) {
    llb_buildengine_destroy(cengine);
    cengine = nullptr;
    cRules.clear();
  }
  engine.reset();
}

void Run::checkDatabase(const char* when) {
  if (!useDb || attachFailed) return;
  std::string err;
  auto db = createSQLiteBuildDB(dbPath, clientVersion, false, &err);
  ReadbackDelegate del;
  db->attachDelegate(&del);
  std::vector<KeyType> keys;
  std::vector<Result> results;
  if (!db->getKeysWithResult(keys, results, &err)) {
    viol("C03.2", std::string("database cannot be read back ") + when + ": " + err);
    return;
  }
  bool ok = false;
  std::string e2;
  uint64_t iteration = db->getCurrentEpoch(&ok, &e2);
  ctr()["db_readbacks"]++;
  std::map<std::string, size_t> seen;
  for (size_t i = 0; i < keys.size(); i++) {
    const std::string& k = keys[i].str();
    if (seen.count(k)) {
      viol("C03.2", "database holds two results for key " + util::printable(k));
      continue;
    }
    seen[k] = i;
    auto it = dbCommitted.find(k);
    if (it == dbCommitted.end()) {
      viol(anyCancelEver ? "C05.4" : "C03.2", "database holds a result for " + util::printable(k) + " that no processed execution produced (" + when + ")");
      continue;
    }
    const DbRow& row = it->second;
    const Result& r = results[i];
    std::string why;
    if (toStr(r.value) != row.value) why = "value differs: stored " + util::printable(toStr(r.value)) + ", produced " + util::printable(row.value);
    else if (r.signature.value != row.sig) why = "signature differs";
    else if (r.builtAt != row.builtEpoch) why = "built-at epoch " + std::to_string(r.builtAt) + " != " + std::to_string(row.builtEpoch);
    else if (r.computedAt != row.computedEpoch) why = "computed-at epoch " + std::to_string(r.computedAt) + " != " + std::to_string(row.computedEpoch);
    else if (r.builtAt > iteration || r.computedAt > iteration) why = "result epoch exceeds the stored iteration " + std::to_string(iteration);
    else {
      std::vector<DepRec> got;
      for (auto d : r.dependencies) got.push_back({del.getKeyForID(d.keyID).str(), d.orderOnly, d.singleUse});
      // The engine records a dependency when the request is finally serviced, which is later than
      // the request call whenever the requested rule first has to be scanned; the list is therefore
      // compared as a multiset of (key, flags).  Order preservation by the database is decided
      // behaviourally by the restart differential (scan order of the next build).
      auto canon = [](std::vector<DepRec> v) {
        std::sort(v.begin(), v.end(), [](const DepRec& a, const DepRec& b) {
          if (a.key != b.key) return a.key < b.key;
          if (a.orderOnly != b.orderOnly) return a.orderOnly < b.orderOnly;
          return a.singleUse < b.singleUse;
        });
        return v;
      };
      if (!(canon(got) == canon(row.deps))) {
        why = "dependency list differs: stored [";
        for (auto& d : got) why += util::printable(d.key, 12) + (d.orderOnly ? "/o" : "") + (d.singleUse ? "/s" : "") + " ";
        why += "] recorded [";
        for (auto& d : row.deps) why += util::printable(d.key, 12) + (d.orderOnly ? "/o" : "") + (d.singleUse ? "/s" : "") + " ";
        why += "]";
      }
    }
    if (!why.empty()) viol("C03.2", "read-back of " + util::printable(k) + " " + when + ": " + why);
  }
  for (auto& e : dbCommitted)
    if (!seen.count(e.first)) viol("C03.2", "result of " + util::printable(e.first) + " is missing from the database " + when);
}

std::string Run::dumpDatabase() {
  if (!useDb) return "(no database)";
  std::string err;
  auto db = createSQLiteBuildDB(dbPath, clientVersion, false, &err);
  ReadbackDelegate del;
  db->attachDelegate(&del);
  std::vector<KeyType> keys;
  std::vector<Result> results;
  if (!db->getKeysWithResult(keys, results, &err)) return "(unreadable: " + err + ")";
  std::vector<std::string> rows;
  for (size_t i = 0; i < keys.size(); i++) {
    std::string row = util::hex(keys[i].str()) + " v=" + util::hex(toStr(results[i].value)) + " sig=" + std::to_string(results[i].signature.value) +
                      " built=" + std::to_string(results[i].builtAt) + " computed=" + std::to_string(results[i].computedAt) + " deps=";
    for (auto d : results[i].dependencies)
      row += util::hex(del.getKeyForID(d.keyID).str()) + (d.orderOnly ? "/o" : "") + (d.singleUse ? "/s" : "") + ",";
    rows.push_back(row);
  }
  std::sort(rows.begin(), rows.end());
  std::string out;
  for (auto& r : rows) out += r + "\n";
  return out;
}

void Run::opBuild(const Json& op) {
  int k = (int)op.getn("k");
  const RuleSpec* target = prog.get(k);
  if (!target || target->empty) return;
  if (restartEveryBuild && buildNo > 0) doRestart();
  bool killWindow = killBuild && buildNo + 1 == killBuild;
  std::set<std::string> invalidSnapshot = invalidOnce;
  if (killWindow) {
    windowOpen = true;
    vfsInWindow = 0;
    simvfs::set_hook([this](const simvfs::Call& c) -> int {
      if (!windowOpen) return 0;
      int64_t idx = vfsInWindow++;
      if (firstWriteAt < 0 && !strcmp(c.op, "write")) firstWriteAt = idx;
      if (idx == killAt && !killed) {
        survivor = simfs::fs().clone();
        killed = true;
      }
      return 0;
    });
  }
  auto closeWindow = [&]() {
    if (!killWindow) return;
    if (!killed && killAt == vfsInWindow) {
      survivor = simfs::fs().clone();
      killed = true;
    }
    windowOpen = false;
    simvfs::set_hook(nullptr);
  };
  ensureEngine();
  buildNo++;
  targetKey = target->key;
  targetId = k;
  cbCount = 0;
  buildEvh = util::Hasher();
  buildProvides.clear();
  createCount.clear();
  reasons.clear();
  invalidReported.clear();
  completedThisBuild.clear();
  requestedThisBuild.clear();
  cycleReported = errorReported = false;
  cancelIssued = cancelReturned = cancelOnEngineThread = false;
  cbAtCancel = -1;
  cancelGo = cancelAbort = false;
  cancelDone = true;
  jobsSeen = 0;
  cancel = CancelSpec();
  const Json* c = ignoreCancel ? nullptr : op.find("cancel");
  if (c) {
    cancel.on = true;
    cancel.kind = (int)c->getn("kind");
    cancel.n = (int)c->getn("n");
    cancel.yields = (int)c->getn("yields");
    cancel.twice = c->getb("twice");
  }
  intrude = IntrudeSpec();
  if (const Json* in = op.find("intrude")) {
    if (useDb && !attachFailed && !capi && !killWindow && !cancel.on) {
      intrude.on = true;
      intrude.mode = (int)in->getn("mode");
      intrude.n = (int)in->getn("n");
    }
  }
  if (attachFailed) {
    ev(EV_BUILD_END, targetKey, "attach-failed");
    BuildSummary s;
    s.target = targetKey;
    summaries.push_back(s);
    dropEngine();
    closeWindow();
    if (killed) {
      invalidOnce = invalidSnapshot;
      crashAndRecover();
    }
    return;
  }
  if (!capi && (prevBuildCancelled || engine->isCancelled())) engine->resetForBuild();
  prevBuildCancelled = false;
  // the engine numbers builds consecutively, continuing from what the attached database stored
  if (capi) engineEpoch = (engineFresh ? (useDb ? committedEpoch : 0) : engineEpoch) + 1;
  else engineEpoch = engine->getCurrentEpoch() + 1;
  engineFresh = false;
  epochBuild[engineEpoch] = buildNo;
  ev(EV_BUILD_BEGIN, targetKey);
  inBuild = true;
  ctr()["builds"]++;
  dbFault = DbFault();
  if (const Json* df = op.find("db_fault")) {
    if (useDb && !capi && !attachFailed) {
      dbFault.armed = true;
      dbFault.kind = df->gets("kind");
      dbFault.nth = (int)df->getn("nth");
      if (dbFault.kind.compare(0, 4, "vfs_") == 0 && !killWindow) {
        simvfs::set_hook([this](const simvfs::Call& c) -> int {
          bool match = dbFault.kind == "vfs_sync" ? !strcmp(c.op, "sync") : !strcmp(c.op, "write");
          if (!match || !dbFaultHit(dbFault.kind.c_str())) return 0;
          ctr()["db_fault_" + dbFault.kind]++;
          return dbFault.kind == "vfs_full" ? SQLITE_FULL : dbFault.kind == "vfs_sync" ? SQLITE_IOERR_FSYNC : SQLITE_IOERR_WRITE;
        });
      }
    }
  }

  // canceller threads
  if (cancel.on && (cancel.kind == 1 || cancel.kind == 2)) {
    cancelDone = false;
    sim::spawn("canceller", [this]() {
      if (cancel.kind == 1) {
        sim::block_until([this]() { return cancelGo || cancelAbort; }, 0, "cancel-gate");
      } else {
        for (int i = 0; i < cancel.yields && !cancelAbort; i++) sim::yield("canceller");
      }
      if (!cancelAbort && inBuild) doCancel(false);
      else ctr()["cancel_too_late"]++;
      sim::hb_release(&cancelDone);
      cancelDone = true;
    });
  }

  if (intrude.on && intrude.mode == 1) {
    // the second engine attaches while nobody holds a lock (legitimate), and tries to build later
    g_intruderDelegate.reset();
    intruder.reset(new BuildEngine(g_intruderDelegate));
    std::string err;
    auto db2 = createSQLiteBuildDB(dbPath, clientVersion, /*recreateUnmatchedVersion=*/true, &err);
    if (!db2 || !intruder->attachDB(std::move(db2), &err)) {
      intruder.reset();
      intrude.on = false;
      ev(EV_NOTE, "", "second-engine-early-attach-failed: " + err);
    }
  }

  ValueType copy;
  if (capi) {
    llb_data_t kd{targetKey.size(), (const uint8_t*)targetKey.data()};
    llb_data_t out{0, nullptr};
    llb_buildengine_build(cengine, &kd, &out);
    copy.assign(out.data, out.data + out.length);
  } else {
    copy = engine->build(KeyType(targetKey));
  }
  inBuild = false;
  if (dbFault.armed && dbFault.kind.compare(0, 4, "vfs_") == 0 && !killWindow) simvfs::set_hook(nullptr);
  dbFault.armed = false;
  intruder.reset();
  cancelAbort = true;
  cancelGo = true;
  if (!cancelDone) sim::block_until([this]() { return cancelDone; }, 0, "join-canceller");
  sim::hb_acquire(&cancelDone);   // the harness joined its canceller thread: say so to ThreadSanitizer
  if (killWindow) {
    // the connection is closed by the engine at the end of build(); the window ends here
    closeWindow();
    if (killed) {
      ev(EV_BUILD_END, targetKey, "killed", killAt);
      invalidOnce = invalidSnapshot;
      crashAndRecover();
      return;
    }
  }
  if (dbFault.fired) {
    // What the database and the engine hold after a failed database call is not modelled.  Judged here: the build came back
    // (the scheduler reports a hang otherwise), every task object it created is gone, no queue thread is left.  The
    // history ends here.
    ctr()["builds_with_db_fault"]++;
    if (!errorReported) ctr()["db_fault_not_reported_as_error"]++;
    if (!copy.empty()) ctr()["db_fault_build_succeeded_anyway"]++;
    if (dbFault.kind.compare(0, 4, "vfs_") == 0) {
      // probe, not judged: after a disk error the next process can still open and read the file
      dropEngine();
      std::string err;
      auto db = createSQLiteBuildDB(dbPath, clientVersion, /*recreate=*/false, &err);
      ReadbackDelegate del;
      bool ok = false;
      std::vector<KeyType> keys;
      std::vector<Result> results;
      if (db) {
        db->attachDelegate(&del);
        db->getCurrentEpoch(&ok, &err);
        if (ok) ok = db->getKeysWithResult(keys, results, &err);
      }
      ctr()[ok ? "probe_db_readable_after_disk_error" : "probe_db_UNREADABLE_after_disk_error"]++;
    }
    ev(EV_BUILD_END, targetKey, "db-fault", 0);
    if (openTasks != 0) viol("C06.2", std::to_string(openTasks) + " task object(s) created by the build were not destroyed when it returned after a database failure");
    int stray = sim::live_with_role_prefix("queue");
    if (stray) viol("C06.2", std::to_string(stray) + " execution-queue thread(s) still alive after build() returned from a database failure");
    BuildSummary s;
    s.target = targetKey;
    s.error = true;
    summaries.push_back(s);
    stopRun = true;
    return;
  }
  afterBuild(copy);
}

// The process "died" at the kill point: the surviving disk image replaces the file system, the doomed
// engine (which was allowed to finish on the original) is discarded, and the next process starts.
void Run::crashAndRecover() {
  dropEngine();
  simfs::setFS(std::move(survivor));
  crashed = true;
  ctr()["crashes"]++;
  if (firstWriteAt >= 0 && killAt > firstWriteAt) ctr()["kill_after_first_db_write"]++;
  std::string when = "after a kill before VFS call " + std::to_string(killAt) + " of build " + std::to_string(buildNo);

  // 1. the next process opens the image
  std::string err;
  auto db = createSQLiteBuildDB(dbPath, clientVersion, /*recreate=*/true, &err);
  ReadbackDelegate del;
  db->attachDelegate(&del);
  bool ok = false;
  uint64_t iteration = db->getCurrentEpoch(&ok, &err);
  if (!ok) {
    viol("C04.1", "database cannot be opened " + when + ": " + err);
    dbCommitted.clear();
    dbv.clear();
    mem.clear();
    return;
  }
  // 2. raw consistency of ids (before the API maps them)
  {
    sqlite3* h = nullptr;
    if (sqlite3_open(dbPath.c_str(), &h) == SQLITE_OK) {
      std::set<int64_t> ids;
      sqlite3_stmt* st = nullptr;
      if (sqlite3_prepare_v2(h, "SELECT id FROM key_names", -1, &st, nullptr) == SQLITE_OK) {
        while (sqlite3_step(st) == SQLITE_ROW) ids.insert(sqlite3_column_int64(st, 0));
        sqlite3_finalize(st);
        if (sqlite3_prepare_v2(h, "SELECT key_id, built_at, computed_at, dependencies FROM rule_results", -1, &st, nullptr) == SQLITE_OK) {
          while (sqlite3_step(st) == SQLITE_ROW) {
            int64_t kid = sqlite3_column_int64(st, 0);
            uint64_t b = (uint64_t)sqlite3_column_int64(st, 1), c = (uint64_t)sqlite3_column_int64(st, 2);
            if (!ids.count(kid)) viol("C04.3", "stored result refers to key id " + std::to_string(kid) + " which is not stored " + when);
            if (b > iteration || c > iteration)
              viol("C04.2", "stored epoch " + std::to_string(iteration) + " is smaller than a stored result's epochs (" + std::to_string(b) + "," +
                                std::to_string(c) + ") " + when);
            int nb = sqlite3_column_bytes(st, 3);
            const unsigned char* blob = (const unsigned char*)sqlite3_column_blob(st, 3);
            for (int i = 0; i + 8 <= nb; i += 8) {
              uint64_t raw;
              memcpy(&raw, blob + i, 8);
              if (!ids.count((int64_t)(raw >> 2)))
                viol("C04.3", "stored dependency refers to key id " + std::to_string(raw >> 2) + " which is not stored " + when);
            }
          }
          sqlite3_finalize(st);
        }
      }
      sqlite3_close(h);
    }
  }
  // 3. every stored result is one some task produced, with the dependency list of that same execution
  std::vector<KeyType> keys;
  std::vector<Result> results;
  if (!db->getKeysWithResult(keys, results, &err)) {
    viol("C04.1", "database cannot be read " + when + ": " + err);
    dbCommitted.clear();
    dbv.clear();
    mem.clear();
    return;
  }
  auto canon = [](std::vector<DepRec> v) {
    std::sort(v.begin(), v.end(), [](const DepRec& a, const DepRec& b) {
      if (a.key != b.key) return a.key < b.key;
      if (a.orderOnly != b.orderOnly) return a.orderOnly < b.orderOnly;
      return a.singleUse < b.singleUse;
    });
    return v;
  };
  std::map<std::string, DbRow> image;
  for (size_t i = 0; i < keys.size(); i++) {
    const std::string& k = keys[i].str();
    const Result& r = results[i];
    DbRow row;
    row.value = toStr(r.value);
    row.sig = r.signature.value;
    row.builtEpoch = r.builtAt;
    row.computedEpoch = r.computedAt;
    for (auto d : r.dependencies) row.deps.push_back({del.getKeyForID(d.keyID).str(), d.orderOnly, d.singleUse});
    row.builtBuild = epochBuild.count(row.builtEpoch) ? epochBuild[row.builtEpoch] : 0;
    row.changedBuild = epochBuild.count(row.computedEpoch) ? epochBuild[row.computedEpoch] : 0;
    bool match = false;
    for (auto& e : allExecs[k])
      if (e.value == row.value && e.sig == row.sig && e.builtEpoch == row.builtEpoch && e.computedEpoch == row.computedEpoch &&
          canon(e.deps) == canon(row.deps))
        match = true;
    if (!match)
      viol("C04.4", "stored result of " + util::printable(k) + " (value " + util::printable(row.value) + ", epochs " + std::to_string(row.builtEpoch) + "/" +
                        std::to_string(row.computedEpoch) + ") is not a result any task produced together with that dependency list " + when);
    if (r.builtAt > iteration || r.computedAt > iteration)
      viol("C04.2", "stored epoch " + std::to_string(iteration) + " is smaller than the epochs of " + util::printable(k) + " " + when);
    image[k] = row;
  }
  if (iteration == engineEpoch) ctr()["kill_image_post_commit"]++;
  else ctr()["kill_image_pre_commit"]++;
  db.reset();
  // 4. the next process continues from what the image holds
  dbCommitted = image;
  dbv = image;
  std::map<std::string, KeyShadow> nm;
  for (auto& e : dbCommitted) {
    KeyShadow sh;
    sh.hasExec = sh.hasValue = true;
    sh.value = e.second.value;
    sh.sig = e.second.sig;
    sh.deps = e.second.deps;
    sh.changedIn = e.second.changedBuild;
    sh.validatedIn = e.second.builtBuild;
    sh.changeEpoch = e.second.computedEpoch;
    nm[e.first] = sh;
  }
  mem.swap(nm);
  changedSince = true;
  prevBuildCancelled = false;
  openTasks = 0;
}

void Run::doRestart() {
  ev(EV_RESTART, "");
  dropEngine();
  restartsDone++;
  restartedSinceBuild = true;
  ctr()["restarts"]++;
  if (!useDb) {
    mem.clear();
    changedSince = true;
    return;
  }
  // roll the in-memory shadow back to what the database holds
  std::map<std::string, KeyShadow> nm;
  for (auto& e : dbCommitted) {
    KeyShadow s;
    s.hasExec = s.hasValue = true;
    if (e.second.builtEpoch == 0) s.hasExec = false;   // a result the engine withdrew (stored with built-at 0): never built
    s.value = e.second.value;
    s.sig = e.second.sig;
    s.deps = e.second.deps;
    s.changedIn = e.second.changedBuild;
    s.validatedIn = e.second.builtBuild;
    s.changeEpoch = e.second.computedEpoch;
    nm[e.first] = s;
  }
  mem.swap(nm);
  dbv = dbCommitted;
}

void Run::afterBuild(const ValueType& result) {
  std::string got = toStr(result);
  bool failedRun = cycleReported || errorReported;
  if (got.empty()) {
    // The build stopped early (cancellation, cycle, error).  A rule that completed in it waited only for the inputs it
    // requested; what it *discovered* is brought up to date on its behalf afterwards.  Where that did not happen any more the
    // engine withdraws the result (built-at 0, also in the database) since fix "unverified discovered dependencies" in
    // /repo: the rule is "never built" for the next build.
    std::vector<std::string> unverified;
    for (auto& k : completedThisBuild) {
      KeyShadow& m = mem[k];
      for (auto& d : m.deps) {
        auto it = mem.find(d.key);
        if (it == mem.end() || it->second.validatedIn != buildNo) {
          unverified.push_back(k);
          break;
        }
      }
    }
    for (auto& k : unverified) {
      mem[k].hasExec = false;
      auto it = dbv.find(k);
      if (it != dbv.end()) {
        it->second.builtEpoch = 0;
        it->second.builtBuild = 0;
      }
      ctr()["results_withdrawn_unverified_discovered"]++;
    }
  }
  ev(EV_BUILD_END, targetKey, got, failedRun || cancelIssued);
  EvalResult e = evalRef(targetId);

  BuildSummary s;
  s.target = targetKey;
  s.result = got;
  for (auto& c : createCount) s.executed.insert(c.first);
  for (auto& r : reasons) s.reason[r.first] = r.second.first;
  s.evhash = buildEvh.get();
  s.provides = buildProvides;
  s.cancelled = cancelIssued;
  s.cycle = cycleReported;
  s.error = errorReported;

  if (cancelIssued) {
    ctr()["builds_cancelled"]++;
    prevBuildCancelled = true;
    // cancelBuild() had returned before the engine delivered another callback (or was called from
    // inside one): the engine checks the flag at the top of every loop iteration, and every callback
    // is followed by at least one more iteration, so the build cannot succeed.
    bool mustFail = cancelOnEngineThread || (cbAtCancel >= 0 && cbCount > cbAtCancel);
    if (mustFail && !got.empty())
      viol("C05.1", "build returned a value although cancelBuild() had returned before further task callbacks were delivered");
    if (got.empty()) ctr()["cancel_build_failed"]++;
    else ctr()["cancel_build_completed_anyway"]++;
  }
  if (openTasks != 0)
    viol(cancelIssued ? "C05.3" : "C06.2", std::to_string(openTasks) + " task object(s) created by the build were not destroyed when it returned");
  int strayQueue = sim::live_with_role_prefix("queue");
  if (strayQueue)
    viol(cancelIssued ? "C05.3" : "C06.2", std::to_string(strayQueue) + " execution-queue thread(s) still alive after build() returned");

  bool success = !failedRun && !got.empty();
  EvalResult core = evalCore(targetId);
  if (!cancelIssued && !failedRun && got.empty())
    viol(e.cyclic ? "C07.2" : "C01.1",
         "build of " + util::printable(targetKey) + " returned the empty (failure) value without a cycle report, error or cancellation");
  s.ok = success;
  bool afterCancel = anyCancelEver && property == "C05";
  if (success) {
    if (core.cyclic) {
      viol("C07.2", "build of " + util::printable(targetKey) + " succeeded although computing it requires a dependency cycle");
    } else if (got != core.value) {
      viol(afterCancel ? "C05.5" : "C01.1", "build " + std::to_string(buildNo) + " of " + util::printable(targetKey) + " returned " +
                                                 util::printable(got) + " but a from-scratch build computes " + util::printable(core.value));
    }
    if (e.cyclic && !core.cyclic) ctr()["probe_single_use_only_cycle_not_traversed"]++;
    ctr()["builds_ok"]++;
  } else if (cycleReported) {
    ctr()["builds_cycle"]++;
  } else if (errorReported) {
    ctr()["builds_error"]++;
  }
  if (core.cyclic && !cycleReported && !cancelIssued && !errorReported)
    viol("C07.2", "computing " + util::printable(targetKey) + " requires a cycle, but the build neither reported one nor failed");
  if (e.cyclic) ctr()["targets_cyclic"]++;

  // probes
  if (!s.executed.empty()) {
    bool skipped = false;
    for (auto& m : mem)
      if (m.second.validatedIn == buildNo && !s.executed.count(m.first)) skipped = true;
    if (skipped && buildNo > 1) {
      incrementalMixed++;
      if (restartedSinceBuild) skippedAfterRestart++;
    }
  } else if (restartedSinceBuild && success && useDb) {
    skippedAfterRestart++;
  }
  restartedSinceBuild = false;
  // C02.4: null build executes nothing
  if (success && nullBuildExpected) {
    ctr()["null_builds_checked"]++;
    if (!s.executed.empty()) {
      std::string names;
      for (auto& k : s.executed) names += util::printable(k, 16) + " ";
      viol("C02.4", "a build with no change since the previous successful build of the same key executed: " + names);
    }
  }
  if (success) {
    lastOkTarget = targetKey;
    changedSince = false;
  } else {
    changedSince = true;
  }
  summaries.push_back(s);

  // the database transaction of this build is committed by now (the engine closed the connection)
  if (useDb) {
    dbCommitted = dbv;
    committedEpoch = engineEpoch;
    checkDatabase(("after build " + std::to_string(buildNo)).c_str());
  }
}

void Run::execute() {
  load();
  for (auto& op : plan.geta("history")) {
    if (stopRun) break;
    std::string kind = op.gets("op");
    if (kind == "build") {
      int k = (int)op.getn("k");
      const RuleSpec* t = prog.get(k);
      nullBuildExpected = t && !changedSince && lastOkTarget == t->key && !op.find("cancel") && invalidOnce.empty();
      opBuild(op);
    } else if (kind == "set") {
      int k = (int)op.getn("k");
      const RuleSpec* t = prog.get(k);
      if (!t || !t->leaf) continue;
      ext[k] = util::unhex(op.gets("v"));
      refDirty = true;
      changedSince = true;
      ev(EV_SET, t->key, ext[k]);
    } else if (kind == "restart") {
      if (dropRestarts) continue;
      if (engine || cengine || buildNo > 0) doRestart();
    } else if (kind == "reject_attach") {
      opRejectAttach(op);
    } else if (kind == "foreign_schema") {
      opForeignSchema();
    } else if (kind == "client_version") {
      // a different client version: the database must be recreated empty, never interpreted
      uint32_t v = (uint32_t)op.getn("v", 1);
      if (engine || cengine || buildNo > 0) doRestart();
      if (useDb) {
        clientVersion = v;
        ev(EV_NOTE, "", "client-version", v);
      }
      changedSince = true;
    } else if (kind == "invalidate") {
      const RuleSpec* t = prog.get((int)op.getn("k"));
      if (!t || t->leaf) continue;
      invalidOnce.insert(t->key);
      changedSince = true;
      ev(EV_NOTE, t->key, "invalidate");
    } else if (kind == "resig") {
      auto it = prog.rules.find((int)op.getn("k"));
      if (it == prog.rules.end()) continue;
      // a rule's signature is fixed for the lifetime of an engine: new definition => new engine
      if (engine || cengine || buildNo > 0) doRestart();
      it->second.nonce = (uint64_t)op.getn("nonce");
      changedSince = true;
      ev(EV_NOTE, it->second.key, "resig");
    } else if (kind == "reprog") {
      auto it = prog.rules.find((int)op.getn("k"));
      const Json* rj = op.find("rule");
      if (it == prog.rules.end() || !rj) continue;
      if (engine || cengine || buildNo > 0) doRestart();
      RuleSpec nr = RuleSpec::fromJson(*rj);
      nr.id = it->second.id;
      nr.key = it->second.key;
      nr.leaf = it->second.leaf;
      nr.mode = it->second.mode;
      nr.delayUs = it->second.delayUs;
      it->second = nr;
      prog.normalise();
      refDirty = true;
      changedSince = true;
      ev(EV_NOTE, nr.key, "reprog");
    }
  }
  dropEngine();
  finalDbDump = dumpDatabase();
}

void Run::finishResult() {
  res.evhash = evh.get();
  res.ihash = sim::interleaving_hash();
  res.steps = sim::steps();
  res.decisions = sim::decisions();
  auto st = sim::stats();
  ctr()["sched_switches"] += st.switches;
  ctr()["sched_threads"] += st.threads;
  ctr()["sched_mutex_blocks"] += st.mutexBlocks;
  ctr()["sched_cond_waits"] += st.condWaits;
  ctr()["sched_lost_signals"] += st.condSignalsLost;
  ctr()["sched_choice_points"] += st.choicePoints;
  ctr()["sched_time_jumps"] += st.timeJumps;
  if (maxComputing >= 2) ctr()["runs_with_concurrent_tasks"]++;
  auto vs = simvfs::stats();
  ctr()["vfs_calls"] += vs.calls;
  ctr()["vfs_writes"] += vs.writes;
  ctr()["vfs_syncs"] += vs.syncs;
  ctr()["vfs_busy"] += vs.busy;
  ctr()["probe_incremental_mixed_builds"] += (uint64_t)incrementalMixed;
  ctr()["probe_reason_input_rebuilt"] += (uint64_t)reasonInputRebuilt;
  ctr()["probe_clean_scan_with_revalidated_input"] += (uint64_t)cleanWithRevalidatedInput;
  ctr()["probe_skip_after_restart"] += (uint64_t)skippedAfterRestart;
  // sample rendering
  std::string s = "keys=" + std::to_string(prog.rules.size()) + " db=" + (useDb ? "1" : "0") + " queue=" + queueKind + " ops=[";
  for (auto& op : plan.geta("history")) {
    s += op.gets("op");
    if (op.find("cancel")) s += "+cancel";
    s += " ";
  }
  s += "] builds=" + std::to_string(buildNo);
  res.sample = s;
  // non-triviality per property
  if (property == "C01") res.nontrivial = incrementalMixed > 0;
  else if (property == "C02") res.nontrivial = reasonInputRebuilt > 0 && cleanWithRevalidatedInput > 0;
  else if (property == "C03") res.nontrivial = restartsDone >= 2 && skippedAfterRestart > 0;
  else if (property == "C05") res.nontrivial = res.counters["cancel_with_waiting_tasks"] > 0 || res.counters["cancel_with_computing_tasks"] > 0;
  else if (property == "C06") res.nontrivial = maxComputing >= 2 && st.switches > 4;
  else if (property == "C20") res.nontrivial = incrementalMixed > 0;
  else if (property == "C07") res.nontrivial = res.counters["cycle_reports"] > 0 || res.counters["targets_cyclic"] > 0 || incrementalMixed > 0;
  else res.nontrivial = buildNo >= 2;
}

// ---- fatal (hang / livelock) reporting
void onFatal(sim::EndKind kind, const std::vector<sim::ThreadDump>& threads) {
  Run* r = g_run;
  RunResult out;
  if (!r) {
    out.status = "harness";
    out.detail = "fatal outside a run";
    runner::fatal_result(out);
  }
  std::string dump;
  for (auto& t : threads) dump += "  thread " + std::to_string(t.id) + " [" + t.role + "] " + t.state + "\n";
  r->finishResult();
  out = r->res;
  if (!r->verdict) {
    std::string clause;
    EvalResult e = r->targetId ? r->evalRef(r->targetId) : EvalResult();
    if (r->property == "C05" && (r->cancelIssued || r->anyCancelEver)) clause = "C05.1";
    else if (r->property == "C07") clause = "C07.4";
    else if (r->property == "C06") clause = "C06.3";
    else if (r->cancelIssued) clause = "C05.1";
    else if (e.cyclic) clause = "C07.4";
    else clause = "C06.3";
    std::string detail = std::string(kind == sim::EndKind::Hang ? "HANG: no simulated thread can run and no timer is pending" : "LIVELOCK: step limit exceeded") +
                         " (build " + std::to_string(r->buildNo) + " of " + util::printable(r->targetKey) + ")\n" + dump + "--- last events ---\n" + r->renderTail();
    bool mine = clause.compare(0, r->property.size() + 1, r->property + ".") == 0;
    if (mine) {
      out.status = kind == sim::EndKind::Hang ? "hang" : "livelock";
      out.clause = clause;
      out.detail = detail;
    } else {
      out.incidental.push_back(clause);
    }
  }
  runner::fatal_result(out);
}

class EngineWorld : public runner::World {
public:
  std::string property;
  explicit EngineWorld(const std::string& p) : property(p) {}

  void warmup() override {
    simvfs::install();
    sim::set_fatal_handler(onFatal);
  }

  Json generate(uint64_t seed, const runner::GenOptions& opt) override {
    return EngineGen::generate(seed, opt, featuresFor(property, opt));
  }

  struct Outcome {
    RunResult res;
    std::vector<Run::BuildSummary> summaries;
    int64_t vfsInWindow = 0;
    std::string dbDump;
  };

  static Json withConfig(const Json& plan, const std::vector<std::pair<std::string, Json>>& over) {
    Json p = plan;
    Json cfg = Json::obj();
    if (const Json* c = plan.find("config")) cfg = *c;
    for (auto& e : over) cfg.set(e.first, e.second);
    p.set("config", cfg);
    return p;
  }

  // one complete simulated execution of a plan (its own file system, clock and scheduler)
  Outcome runOnce(const Json& plan, bool useDecisions) {
    Run run(plan);
    g_run = &run;
    simfs::setFS(std::unique_ptr<simfs::FS>(new simfs::FS()));
    simvfs::reset_stats();
    simvfs::reset_counter();
    simvfs::set_hook(nullptr);
    const Json* cfg = plan.find("config");
    sim::SchedConfig sc;
    if (cfg) {
      sc.seed = (uint64_t)cfg->getn("sched_seed", 1);
      sc.policy = (int)cfg->getn("policy", sim::POLICY_STICKY);
      sc.stickyPermille = (int)cfg->getn("sticky", 900);
      sc.pctDepth = (int)cfg->getn("pct", 2);
    }
    simvfs::set_random_seed(sc.seed);
    if (useDecisions && plan.find("decisions")) {
      sc.useReplay = true;
      for (auto& d : plan.geta("decisions")) sc.replay.push_back((uint32_t)d.n);
    }
    sim::begin(sc);
    sim::set_role("engine");
    uint64_t t0 = sim::now_ns();
    run.execute();
    run.res.simtime_us = (sim::now_ns() - t0) / 1000;
    run.finishResult();
    sim::end();
    simvfs::set_hook(nullptr);
    g_run = nullptr;
    Outcome o;
    o.res = run.res;
    o.summaries = run.summaries;
    o.vfsInWindow = run.vfsInWindow;
    o.dbDump = run.finalDbDump;
    return o;
  }

  static void accumulate(RunResult& into, const RunResult& r) {
    for (auto& e : r.counters) into.counters[e.first] += e.second;
    for (auto& i : r.incidental)
      if (std::find(into.incidental.begin(), into.incidental.end(), i) == into.incidental.end()) into.incidental.push_back(i);
    into.steps += r.steps;
    into.simtime_us += r.simtime_us;
    util::Hasher h;
    h.u64(into.evhash);
    h.u64(r.evhash);
    into.evhash = h.get();
    util::Hasher hi;
    hi.u64(into.ihash);
    hi.u64(r.ihash);
    into.ihash = hi.get();
    if (r.nontrivial) into.nontrivial = true;
    if (into.sample.empty()) into.sample = r.sample;
    if (into.shape == 0) into.shape = r.shape;
  }

  static std::string describe(const Run::BuildSummary& s) {
    std::string o = "target=" + util::printable(s.target, 16) + " ok=" + (s.ok ? "1" : "0") + " result=" + util::printable(s.result, 16) + " executed={";
    for (auto& k : s.executed) {
      o += util::printable(k, 12);
      auto it = s.reason.find(k);
      if (it != s.reason.end()) o += ":" + std::to_string(it->second);
      o += " ";
    }
    return o + "}";
  }

  // ---- C03: the same history in one engine, with restarts as generated, and with a restart before every build
  RunResult executeC03(const Json& plan) {
    std::vector<std::pair<std::string, Json>> canon = {{"force_sync", Json::boolean(true)}, {"queue", Json::str("inline")},
                                                       {"db", Json::boolean(true)}};
    auto a = canon, b = canon, c = canon;
    b.push_back({"restart_every_build", Json::boolean(true)});
    c.push_back({"drop_restarts", Json::boolean(true)});
    RunResult total;
    Outcome oa = runOnce(withConfig(plan, a), false);
    if (oa.res.failed()) return oa.res;
    accumulate(total, oa.res);
    Outcome ob = runOnce(withConfig(plan, b), false);
    if (ob.res.failed()) {
      ob.res.detail = "(variant: restart before every build)\n" + ob.res.detail;
      return ob.res;
    }
    accumulate(total, ob.res);
    Outcome oc = runOnce(withConfig(plan, c), false);
    if (oc.res.failed()) {
      oc.res.detail = "(variant: single engine, no restart)\n" + oc.res.detail;
      return oc.res;
    }
    accumulate(total, oc.res);
    total.nontrivial = oa.res.nontrivial || ob.res.nontrivial;
    total.counters["differential_histories"]++;
    // resig/reprog imply a restart in every variant, so "single engine" means: no restart that the
    // history does not force.  Compare per build.
    auto cmp = [&](const Outcome& x, const Outcome& y, const char* xn, const char* yn) {
      if (total.failed()) return;
      if (x.summaries.size() != y.summaries.size()) {
        total.status = "viol";
        total.clause = "C03.1";
        total.detail = std::string("number of builds differs between ") + xn + " and " + yn;
        return;
      }
      bool stoppedEarly = false;
      for (size_t i = 0; i < x.summaries.size(); i++) {
        const auto& p = x.summaries[i];
        const auto& q = y.summaries[i];
        // After a build that stopped early the engine that ran it is more pessimistic than the database (it forgets what the
        // cancelled tasks had, the database keeps their older results): from then on the two may legitimately differ in what
        // they execute and why - not in what they return.
        if (p.cancelled || q.cancelled || p.cycle || q.cycle || p.error || q.error) stoppedEarly = true;
        // a cancellation is placed by counting engine callbacks, and a restart adds callbacks: it may land in one variant and
        // come too late in the other - the cancelled build itself is not compared, what follows it is
        if (p.cancelled || q.cancelled) continue;
        std::string what;
        if (p.ok != q.ok || p.result != q.result) what = "result";
        else if (stoppedEarly) what = "";
        else if (p.executed != q.executed) what = "set of executed rules";
        else if (p.reason != q.reason) what = "reported reasons";
        else if (p.evhash != q.evhash) what = "sequence of engine callbacks (scan/request order)";
        if (!what.empty()) {
          total.status = "viol";
          total.clause = "C03.1";
          total.detail = "build " + std::to_string(i + 1) + ": " + what + " differs between '" + xn + "' and '" + yn + "'\n  " + xn + ": " +
                         describe(p) + "\n  " + yn + ": " + describe(q);
          return;
        }
        total.counters["differential_builds_compared"]++;
      }
    };
    cmp(oc, ob, "single engine", "restart before every build");
    cmp(oc, oa, "single engine", "restarts as generated");
    return total;
  }

  // ---- C04: every VFS call of one build is a kill point
  RunResult executeC04(const Json& plan) {
    std::vector<std::pair<std::string, Json>> canon = {{"force_sync", Json::boolean(true)}, {"queue", Json::str("inline")},
                                                       {"db", Json::boolean(true)}};
    Json base = withConfig(plan, canon);
    int nBuilds = 0;
    for (auto& op : plan.geta("history"))
      if (op.gets("op") == "build") nBuilds++;
    int build = 1;
    int64_t n = -1;
    if (const Json* k = plan.find("kill")) {
      build = (int)k->getn("build", 1);
      n = k->getn("n", -1);
    }
    if (build > nBuilds) build = nBuilds;
    if (build < 1) build = 1;
    auto withKill = [&](int64_t at) {
      Json p = base;
      p.set("kill", Json::obj().set("build", build).set("n", at));
      return p;
    };
    if (n >= 0) {
      Outcome o = runOnce(withKill(n), false);
      o.res.counters["kill_points"]++;
      return o.res;
    }
    RunResult total;
    Outcome dry = runOnce(withKill(-1), false);
    if (dry.res.failed()) return dry.res;
    accumulate(total, dry.res);
    int64_t N = dry.vfsInWindow;
    total.counters["kill_histories"]++;
    total.counters["kill_window_vfs_calls"] += (uint64_t)N;
    for (int64_t at = 0; at <= N; at++) {
      Outcome o = runOnce(withKill(at), false);
      total.counters["kill_points"]++;
      if (o.res.failed()) {
        o.res.patch = Json::obj().set("kill", Json::obj().set("build", build).set("n", at));
        o.res.detail = "(kill before VFS call " + std::to_string(at) + " of " + std::to_string(N) + " in build " + std::to_string(build) + ")\n" + o.res.detail;
        return o.res;
      }
      accumulate(total, o.res);
    }
    total.nontrivial = total.counters["kill_after_first_db_write"] > 0;
    return total;
  }

  // ---- C06: the last build under several schedules, compared with its canonical execution
  RunResult executeC06(const Json& plan) {
    int nBuilds = 0;
    for (auto& op : plan.geta("history"))
      if (op.gets("op") == "build") nBuilds++;
    RunResult total;
    Outcome base = runOnce(withConfig(plan, {{"force_sync", Json::boolean(true)}, {"queue", Json::str("inline")}, {"ignore_cancel", Json::boolean(true)}}), false);
    if (base.res.failed()) {
      base.res.detail = "(canonical synchronous execution)\n" + base.res.detail;
      return base.res;
    }
    accumulate(total, base.res);
    total.nontrivial = false;
    std::vector<int64_t> seeds;
    for (auto& sj : plan.geta("sched_seeds")) seeds.push_back(sj.n);
    if (seeds.empty()) seeds.push_back(plan.find("config") ? plan.find("config")->getn("sched_seed", 1) : 1);
    static const char* queues[] = {"serial", "lane1", "lane2", "lane4", "lane3"};
    for (size_t vi = 0; vi < seeds.size(); vi++) {
      int64_t sd = seeds[vi];
      std::vector<std::pair<std::string, Json>> over = {{"sync_before_build", Json::num(nBuilds - 1)}, {"sched_seed", Json::num(sd)},
                                                        {"policy", Json::num((sd >> 3) % 3)}, {"queue", Json::str(queues[(sd >> 7) % 5])}};
      static const int sticky[] = {500, 900, 990};
      over.push_back({"sticky", Json::num(sticky[(sd >> 11) % 3])});
      Outcome o = runOnce(withConfig(plan, over), seeds.size() == 1);
      Json patch = Json::obj();
      Json one = Json::arr();
      one.push(Json::num(sd));
      patch.set("sched_seeds", one);
      if (o.res.failed()) {
        o.res.patch = patch;
        return o.res;
      }
      bool nt = o.res.nontrivial;
      accumulate(total, o.res);
      if (nt) total.nontrivial = true;
      total.decisions = o.res.decisions;
      total.counters["schedules_compared"]++;
      if (base.summaries.empty() || o.summaries.size() != base.summaries.size()) continue;
      const auto& p = base.summaries.back();
      const auto& q = o.summaries.back();
      if (q.cancelled) {
        total.counters["schedules_with_cancellation"]++;
        continue;
      }
      if (p.error || q.error) {
        // a database call failed (injected): which rule it hit depends on the completion order; only coming back is judged
        total.counters["schedules_with_db_fault"]++;
        continue;
      }
      std::string what;
      if (p.ok != q.ok || p.result != q.result) what = "result";
      else if (p.executed != q.executed) what = "set of executed rules";
      else if (p.provides != q.provides) what = "values provided to tasks";
      if (!what.empty()) {
        total.status = "viol";
        total.clause = "C06.1";
        total.patch = patch;
        total.detail = "last build: " + what + " differs between the canonical execution and schedule seed " + std::to_string(sd) + "\n  canonical: " +
                       describe(p) + "\n  scheduled: " + describe(q) + "\n" + o.res.detail;
        return total;
      }
    }
    return total;
  }

  // ---- C20: the same history through the C++ interface and through the libllbuild C interface
  RunResult executeC20(const Json& plan) {
    std::vector<std::pair<std::string, Json>> common = {{"force_sync", Json::boolean(true)}, {"queue", Json::str("inline")},
                                                        {"zero_signatures", Json::boolean(true)}};
    auto cpp = common, c = common;
    c.push_back({"capi", Json::boolean(true)});
    RunResult total;
    Outcome a = runOnce(withConfig(plan, cpp), false);
    if (a.res.failed()) {
      a.res.detail = "(C++ interface)\n" + a.res.detail;
      return a.res;
    }
    accumulate(total, a.res);
    Outcome b = runOnce(withConfig(plan, c), false);
    if (b.res.failed()) {
      b.res.detail = "(C interface)\n" + b.res.detail;
      return b.res;
    }
    accumulate(total, b.res);
    total.nontrivial = a.res.nontrivial || b.res.nontrivial;
    total.counters["bindings_compared"]++;
    if (a.summaries.size() != b.summaries.size()) {
      total.status = "viol";
      total.clause = "C20.1";
      total.detail = "number of builds differs between the two interfaces";
      return total;
    }
    for (size_t i = 0; i < a.summaries.size(); i++) {
      const auto& p = a.summaries[i];
      const auto& q = b.summaries[i];
      std::string what, clause = "C20.1";
      if (p.ok != q.ok || p.result != q.result) what = "result";
      else if (p.executed != q.executed) what = "set of executed rules";
      else if (p.provides != q.provides) what = "values provided to tasks";
      else if (p.evhash != q.evhash) {
        what = "sequence of task/rule callbacks";
        clause = "C20.2";
      }
      if (!what.empty()) {
        total.status = "viol";
        total.clause = clause;
        total.detail = "build " + std::to_string(i + 1) + ": " + what + " differs between the C++ interface and the C interface\n  C++: " + describe(p) +
                       "\n  C:   " + describe(q) + "\n--- C interface run ---\n" + b.res.detail;
        return total;
      }
      total.counters["builds_compared"]++;
    }
    if (a.dbDump != b.dbDump) {
      total.status = "viol";
      total.clause = "C20.3";
      total.detail = "persisted state differs between the two interfaces\n--- C++ ---\n" + a.dbDump.substr(0, 1500) + "--- C ---\n" + b.dbDump.substr(0, 1500);
    }
    return total;
  }

  RunResult execute(const Json& plan) override {
    std::string prop = plan.gets("property");
    if (prop == "C20") return executeC20(plan);
    if (prop == "C03" && plan.gets("scenario", "diff") == "diff") return executeC03(plan);
    if (prop == "C04") return executeC04(plan);
    if (prop == "C06") return executeC06(plan);
    return runOnce(plan, true).res;
  }
};

} // namespace

EngineFeatures featuresFor(const std::string& property, const runner::GenOptions& opt) {
  EngineFeatures f;
  bool thorough = opt.tier == "thorough";
  if (thorough) {
    f.maxKeys = 14;
    f.maxOps = 10;
  }
  if (property == "C01" || property == "C02") {
    f.asyncPermille = 300;
    // earlier builds of a history may have been cancelled (or failed): part of "any sequence of earlier builds"
    f.cancel = true;
    f.cancelPermille = 120;
  } else if (property == "C03") {
    f.dbPermille = 1000;
    f.numericKeys = true;
    f.clientVersions = true;
    f.lockout = true;
    // "all histories" includes builds that stop early: what such a build leaves in the database must serve a new engine
    // exactly as the engine that ran it is served by its memory
    f.cancel = true;
    f.cancelPermille = 80;
  } else if (property == "C04") {
    f.dbPermille = 1000;
  } else if (property == "C05") {
    f.cancel = true;
    f.cancelPermille = 600;
    f.asyncPermille = 800;
  } else if (property == "C06") {
    f.asyncPermille = 1000;
    f.dbPermille = 400;
  } else if (property == "C20") {
    // what core.h can express: no signatures, no single-use requests, no redefinition of rules
    f.single = false;
    f.resig = false;
    f.reprog = false;
    f.clientVersions = true;
    // a build abandoned because of a cycle is the one way a C client sees a build stop early; what the same engine
    // reports in later builds must still match
    f.cycles = true;
    f.cyclePermille = 150;
  } else if (property == "C07") {
    f.cycles = true;
    f.cyclePermille = 700;
    f.asyncPermille = 300;
  }
  return f;
}

runner::World* makeEngineWorld(const std::string& property) { return new EngineWorld(property); }

} // namespace wa
