// World A — the real BuildEngine (+SQLiteBuildDB, execution queues) driven by
// generated rule programs and histories under detsched/simvfs.
// Serves C01..C07 (C20 lives in capi_world.cpp and reuses this model).
#include "worlds/engine_world.h"

#include "sim/detsched.h"
#include "sim/simfs.h"
#include "sim/simvfs.h"

#include "llbuild/Basic/ExecutionQueue.h"
#include "llbuild/Core/BuildDB.h"
#include "llbuild/Core/BuildEngine.h"

#include <sqlite3.h>

#include <algorithm>
#include <cstring>
#include <memory>

using namespace llbuild;
using namespace llbuild::core;
using runner::RunResult;
using util::Json;

namespace wa {

// ------------------------------------------------------------------ generator

namespace {

std::string spellKey(int style, int id, util::Rng& rng) {
  static const char* numeric[] = {"7", "007", "1e3", " 12", "0x1F", "1.0", "12", "12.0", "-0", "0", "+5", "5", "1e03", "1000", ".5", "0.5"};
  switch (style) {
  case 1: return std::string("a\0b", 3) + std::to_string(id);
  case 2: return std::string("\xff\xfe") + std::to_string(id) + "\x80";
  case 3: return numeric[id % 16];
  case 4: return std::string(4096, (char)('a' + id % 26)) + std::to_string(id);
  case 5: return std::string("x") + std::string(1, '\0') + std::string(1, (char)id);
  default: return "k" + std::to_string(id);
  }
}

std::string spellValue(util::Rng& rng, uint64_t counter, int style) {
  std::string base = "v" + std::to_string(counter);
  switch (style) {
  case 1: return base + std::string("\0\x01\xff", 3) + base;
  case 2: return base + std::string(200 + rng.below(2500), (char)('A' + counter % 26));
  case 3: return std::string(1, (char)(1 + counter % 250));
  default: return base;
  }
}

} // namespace

Json EngineGen::generate(uint64_t seed, const runner::GenOptions& opt, const EngineFeatures& f) {
  util::Rng rng(seed);
  Json plan = Json::obj();
  plan.set("world", "A").set("property", opt.property).set("seed", (int64_t)seed);

  int nKeys = (int)rng.range(f.minKeys, f.maxKeys);
  int keyStyle = 0;
  if (f.hostileKeys && rng.chance(450)) keyStyle = (int)rng.range(1, 5);
  if (keyStyle == 3 && !f.numericKeys) keyStyle = 0;
  if (opt.forced("numeric-keys")) keyStyle = 3;
  if (opt.excluded("numeric-keys") && keyStyle == 3) keyStyle = 1;
  bool mixedStyle = keyStyle != 0 && keyStyle != 3 && rng.chance(300);
  int valStyle = f.hostileValues && rng.chance(400) ? (int)rng.range(1, 3) : 0;

  // swarm: feature subset for this run
  bool useDyn = f.dyn && rng.chance(600);
  bool useDisc = f.disc && rng.chance(600);
  bool useSingle = f.single && rng.chance(400);
  bool useFollow = f.follow && rng.chance(400);
  bool useCollapse = f.collapse && rng.chance(600);
  bool useForce = f.force && rng.chance(250);
  bool useCycles = f.cycles && rng.chance(f.cyclePermille);
  int asyncPermille = f.asyncPermille;
  bool allAsync = asyncPermille > 0 && rng.chance(asyncPermille);

  Json cfg = Json::obj();
  bool db = f.dbPermille >= 1000 || rng.chance(f.dbPermille);
  cfg.setb("db", db);
  static const char* queues[] = {"serial", "lane1", "lane2", "lane4", "lane3"};
  cfg.set("queue", queues[rng.below(5)]);
  cfg.set("alg", (int64_t)rng.below(2));
  cfg.set("policy", (int64_t)rng.below(3));
  static const int sticky[] = {500, 900, 990};
  cfg.set("sticky", sticky[rng.below(3)]);
  cfg.set("pct", (int64_t)rng.range(1, 3));
  cfg.set("sched_seed", (int64_t)(rng.next() >> 2));
  cfg.set("client_version", (int64_t)rng.range(1, 9));
  plan.set("config", cfg);

  Program prog;
  std::vector<int> leaves, computed;
  int nLeaves = std::max(1, (int)(nKeys * rng.range(25, 55) / 100));
  for (int i = 0; i < nKeys; i++) {
    RuleSpec r;
    r.id = i + 1;
    int style = keyStyle;
    if (mixedStyle && rng.chance(500)) style = 0;
    r.key = spellKey(style, r.id, rng);
    r.leaf = i < nLeaves;
    r.salt = rng.below(1000);
    r.nonce = 0;
    if (r.leaf) {
      leaves.push_back(r.id);
    } else {
      // depends on earlier rules (DAG) unless a back edge is added below
      int nReq = (int)rng.range(1, std::min(4, i));
      for (int q = 0; q < nReq; q++) {
        int t = REQ;
        if (useSingle && rng.chance(200)) t = SINGLE;
        else if (useFollow && rng.chance(200)) t = FOLLOW;
        r.reqs.push_back({(int)rng.range(1, i), t});
      }
      if (useDyn && rng.chance(500)) {
        int nd = (int)rng.range(1, 2);
        for (int q = 0; q < nd; q++) {
          Dyn d;
          d.on = r.reqs[rng.below(r.reqs.size())].k;
          d.mod = (unsigned)rng.range(1, 3);
          d.rem = (unsigned)rng.below(d.mod);
          d.k = (int)rng.range(1, i);
          d.t = REQ;
          if (useSingle && rng.chance(150)) d.t = SINGLE;
          else if (useFollow && rng.chance(150)) d.t = FOLLOW;
          r.dyn.push_back(d);
        }
      }
      if (useDisc && rng.chance(500)) {
        int nd = (int)rng.range(1, 2);
        for (int q = 0; q < nd; q++) {
          Disc d;
          d.k = leaves[rng.below(leaves.size())];
          d.on = rng.chance(500) ? -1 : r.reqs[rng.below(r.reqs.size())].k;
          d.mod = (unsigned)rng.range(1, 3);
          d.rem = (unsigned)rng.below(d.mod);
          r.disc.push_back(d);
        }
      }
      if (useCollapse && rng.chance(500)) r.collapse = (unsigned)rng.range(1, 3);
      if (useForce && rng.chance(300)) r.force = true;
      r.pad = rng.chance(150) ? (unsigned)rng.range(1, 300) : 0;
      computed.push_back(r.id);
    }
    if (allAsync || (asyncPermille > 0 && rng.chance(asyncPermille / 2))) {
      r.mode = (int)rng.range(1, 2);
      r.delayUs = rng.chance(600) ? (unsigned)rng.below(2000) : 0;
    }
    prog.rules[r.id] = r;
  }
  if (useCycles && !computed.empty()) {
    // add 1-2 back edges (static, dynamic or order-only)
    int nb = (int)rng.range(1, 2);
    for (int b = 0; b < nb; b++) {
      int from = computed[rng.below(computed.size())];
      int to = computed[rng.below(computed.size())];
      if (to < from) std::swap(from, to); // from (lower id) requests to (higher id): closes a cycle if to reaches from
      RuleSpec& r = prog.rules[from];
      if (useDyn && rng.chance(400) && !r.reqs.empty()) {
        Dyn d;
        d.on = r.reqs[0].k;
        d.mod = (unsigned)rng.range(1, 2);
        d.rem = 0;
        d.k = to;
        d.t = REQ;
        r.dyn.push_back(d);
      } else {
        r.reqs.push_back({to, rng.chance(200) ? FOLLOW : REQ});
      }
    }
  }
  prog.normalise();

  Json rules = Json::arr();
  for (auto& e : prog.rules) rules.push(e.second.toJson());
  plan.set("rules", rules);

  // initial external state
  uint64_t vcounter = 1;
  std::map<int, std::vector<std::string>> past;
  Json ext = Json::arr();
  for (int id : leaves) {
    std::string v = spellValue(rng, vcounter++, valStyle);
    past[id].push_back(v);
    ext.push(Json::obj().set("k", id).set("v", util::hex(v)));
  }
  plan.set("ext", ext);

  // history
  Json hist = Json::arr();
  int nOps = (int)rng.range(f.minOps, f.maxOps);
  int builds = 0;
  auto pickTarget = [&]() -> int {
    if (!computed.empty() && rng.chance(850)) {
      // prefer late (high) rules: they reach more of the graph
      size_t i = computed.size() - 1 - (size_t)rng.below(std::min<size_t>(computed.size(), 3));
      return computed[i];
    }
    return (int)rng.range(1, nKeys);
  };
  int mainTarget = pickTarget();
  auto addBuild = [&]() {
    Json op = Json::obj();
    op.set("op", "build");
    op.set("k", rng.chance(650) ? mainTarget : pickTarget());
    if (f.cancel && rng.chance(f.cancelPermille)) {
      Json c = Json::obj();
      int kind = (int)rng.below(4);
      c.set("kind", kind); // 0: engine callback n, same thread; 1: engine callback n, foreign thread; 2: free-running thread; 3: inside job
      c.set("n", (int64_t)rng.below(40));
      c.set("yields", (int64_t)rng.below(30));
      c.setb("twice", rng.chance(150));
      op.set("cancel", c);
    }
    hist.push(op);
    builds++;
  };
  addBuild();
  for (int i = 1; i < nOps; i++) {
    unsigned roll = (unsigned)rng.below(1000);
    if (roll < 380) {
      addBuild();
    } else if (roll < 700) {
      int id = leaves[rng.below(leaves.size())];
      std::string v;
      if (past[id].size() > 1 && rng.chance(300)) v = past[id][rng.below(past[id].size())];
      else v = spellValue(rng, vcounter++, valStyle);
      past[id].push_back(v);
      hist.push(Json::obj().set("op", "set").set("k", id).set("v", util::hex(v)));
    } else if (roll < 800 && f.restart) {
      hist.push(Json::obj().set("op", "restart"));
    } else if (roll < 850 && f.invalidate && !computed.empty()) {
      hist.push(Json::obj().set("op", "invalidate").set("k", computed[rng.below(computed.size())]));
    } else if (roll < 900 && f.resig && !computed.empty()) {
      hist.push(Json::obj().set("op", "resig").set("k", computed[rng.below(computed.size())]).set("nonce", (int64_t)rng.range(1, 1000000)));
    } else if (roll < 960 && f.reprog && !computed.empty()) {
      // new program for one computed rule (different requests), still a DAG unless cycles are on
      int id = computed[rng.below(computed.size())];
      RuleSpec r = prog.rules[id];
      r.reqs.clear();
      r.dyn.clear();
      r.disc.clear();
      int lim = useCycles && rng.chance(300) ? nKeys : id - 1;
      int nReq = (int)rng.range(1, 3);
      for (int q = 0; q < nReq; q++) r.reqs.push_back({(int)rng.range(1, std::max(1, lim)), useFollow && rng.chance(200) ? FOLLOW : REQ});
      if (useDisc && rng.chance(400)) r.disc.push_back({leaves[rng.below(leaves.size())], -1, 1, 0});
      r.salt = rng.below(1000);
      hist.push(Json::obj().set("op", "reprog").set("k", id).set("rule", r.toJson()));
    } else {
      addBuild();
    }
  }
  if (builds < 2) addBuild();
  plan.set("history", hist);
  return plan;
}

// ------------------------------------------------------------------ execution

namespace {

enum EvKind {
  EV_BUILD_BEGIN, EV_BUILD_END, EV_LOOKUP, EV_CREATE_TASK, EV_VALID, EV_STATUS, EV_REASON, EV_CYCLE, EV_ERROR,
  EV_START, EV_PRIOR, EV_PROVIDE, EV_INPUTS_AVAIL, EV_REQUEST, EV_DISCOVERED, EV_COMPLETE, EV_TASK_DESTROYED,
  EV_SET, EV_RESTART, EV_CANCEL, EV_JOB_START, EV_JOB_END, EV_NOTE
};
const char* evName[] = {"build-begin", "build-end", "lookup", "create-task", "is-valid", "status", "needs-to-run", "cycle", "error",
                        "start", "prior-value", "provide-value", "inputs-available", "request", "discovered", "complete", "task-destroyed",
                        "set", "restart", "cancel", "job-start", "job-end", "note"};

struct Event {
  int kind;
  int build;
  std::string key;
  std::string a;
  int64_t n;
};

struct DepRec {
  std::string key;
  bool orderOnly;
  bool singleUse;
  bool operator==(const DepRec& o) const { return key == o.key && orderOnly == o.orderOnly && singleUse == o.singleUse; }
};

struct ExecRec {
  uint64_t sig;
  std::string value;
  std::vector<DepRec> deps;
  uint64_t builtEpoch, computedEpoch;
};

struct KeyShadow {
  // what the running engine can know (includes completions discarded by a cancelled build)
  bool hasExec = false;        // a processed (IsComplete) execution survives in this lineage
  bool hasValue = false;       // some complete() call delivered a value in this lineage
  std::string value;           // value of the latest complete() call
  uint64_t sig = 0;            // signature at the latest complete() call
  int changedIn = 0;           // build number of the latest complete() that changed the value
  uint64_t changeEpoch = 0;    // engine epoch of the same
  int validatedIn = 0;         // build number of the latest IsUpToDate / IsComplete
  std::vector<DepRec> deps;    // dependency list of the latest processed execution
  bool interrupted = false;    // latest task was created but never processed to completion
  int interruptedIn = 0;       // build number of the latest interruption
};

struct DbRow {
  std::string value;
  uint64_t sig = 0;
  uint64_t builtEpoch = 0, computedEpoch = 0;
  int builtBuild = 0, changedBuild = 0;
  std::vector<DepRec> deps;
};

struct Run;
Run* g_run = nullptr;

class SimTask;

struct TaskState {
  int rid;
  std::string key;
  int build;
  bool started = false, priorGiven = false, inputsAvail = false, completeCalled = false, destroyed = false, anyProvide = false;
  std::map<int, int> outstanding;          // requested id -> type, not yet provided
  std::set<int> requested;
  std::map<int, std::string> delivered;    // REQ inputs delivered
  std::set<int> follows;                   // must-follow keys
  std::vector<DepRec> reqOrder;            // dependency list as requested
  std::vector<DepRec> discovered;
};

class JobDesc : public basic::JobDescriptor {
public:
  std::string name;
  StringRef getOrdinalName() const override { return name; }
  void getShortDescription(SmallVectorImpl<char>& result) const override {
    result.append(name.begin(), name.end());
  }
  void getVerboseDescription(SmallVectorImpl<char>& result) const override {
    result.append(name.begin(), name.end());
  }
};

struct Run : public BuildEngineDelegate, public basic::ExecutionQueueDelegate {
  // plan
  Json plan;
  std::string property;
  Program prog;
  std::map<int, std::string> ext;
  bool useDb = false;
  std::string queueKind = "serial";
  int queueAlg = 0;
  uint32_t clientVersion = 1;
  int syncBeforeBuild = 0;       // builds with index < this run in canonical (sync) mode regardless of rule modes
  bool forceSync = false;
  bool restartEveryBuild = false;
  bool dropRestarts = false;
  bool allowCycleBreak = false;

  // engine
  std::unique_ptr<BuildEngine> engine;
  std::string dbPath = "/sim/build.db";
  bool attachFailed = false;
  std::string attachError;

  // state
  RefEval ref, refCore;
  bool refDirty = true;
  std::map<std::string, KeyShadow> mem;
  std::map<std::string, DbRow> dbv, dbCommitted;
  std::map<std::string, std::vector<ExecRec>> allExecs;
  std::set<std::string> invalidOnce;      // keys whose isResultValid returns false at the next scan
  int buildNo = 0;
  bool inBuild = false;
  std::string targetKey;
  int targetId = 0;
  uint64_t engineEpoch = 0;
  int cbCount = 0;             // engine->harness callbacks in this build
  std::map<std::string, int> createCount;
  std::map<std::string, std::pair<int, std::string>> reasons;
  std::set<std::string> invalidReported;
  bool cycleReported = false, errorReported = false;
  std::vector<std::string> cycleKeys;
  std::string lastError;
  std::map<std::string, std::set<std::string>> requestedThisBuild; // key -> keys its task requested
  std::vector<std::unique_ptr<TaskState>> tasks;
  int openTasks = 0;
  int computingNow = 0, maxComputing = 0;
  bool prevBuildCancelled = false;
  bool anyCancelEver = false;

  // cancellation
  struct CancelSpec {
    bool on = false;
    int kind = 0;
    int n = 0;
    int yields = 0;
    bool twice = false;
  } cancel;
  bool cancelIssued = false, cancelReturned = false, cancelOnEngineThread = false;
  int cbAtCancel = -1;
  bool nullBuildExpected = false;
  bool changedSince = true;
  std::string lastOkTarget;
  int restartsDone = 0;
  int skippedAfterRestart = 0;
  bool restartedSinceBuild = false;
  bool cancelGo = false, cancelDone = true, cancelAbort = false;
  int jobsSeen = 0;

  // per-build summaries (C03/C06 comparisons)
  struct BuildSummary {
    std::string target;
    bool ok = false;
    std::string result;
    std::set<std::string> executed;
    std::map<std::string, int> reason;
    bool operator==(const BuildSummary& o) const {
      return target == o.target && ok == o.ok && result == o.result && executed == o.executed && reason == o.reason;
    }
  };
  std::vector<BuildSummary> summaries;

  // events
  util::Hasher evh;
  std::vector<Event> events;
  uint64_t seq = 0;

  // result
  RunResult res;
  bool verdict = false;
  std::map<std::string, uint64_t>& ctr() { return res.counters; }

  // non-triviality probes
  int incrementalMixed = 0;    // builds where some rule was skipped and some executed
  int reasonInputRebuilt = 0, cleanWithRevalidatedInput = 0;
  int restartsWithSkip = 0;

  explicit Run(const Json& p) : plan(p) {}

  // ---- helpers
  void ev(int kind, const std::string& key, const std::string& a = "", int64_t n = 0) {
    evh.u64((uint64_t)kind);
    evh.u64((uint64_t)buildNo);
    evh.str(key);
    evh.str(a);
    evh.u64((uint64_t)n);
    if (events.size() < 20000) events.push_back({kind, buildNo, key, a, n});
    seq++;
  }

  std::string renderTail(size_t n = 60) const {
    std::string o;
    size_t from = events.size() > n ? events.size() - n : 0;
    for (size_t i = from; i < events.size(); i++) {
      const Event& e = events[i];
      o += "  [" + std::to_string(e.build) + "] " + evName[e.kind] + " " + util::printable(e.key, 24);
      if (!e.a.empty()) o += " " + util::printable(e.a, 40);
      if (e.n) o += " n=" + std::to_string(e.n);
      o += "\n";
    }
    return o;
  }

  void viol(const std::string& clause, const std::string& detail) {
    bool mine = clause.compare(0, property.size() + 1, property + ".") == 0;
    if (mine) {
      if (!verdict) {
        verdict = true;
        res.status = "viol";
        res.clause = clause;
        res.detail = detail + "\n--- last events ---\n" + renderTail();
      }
    } else {
      std::string c = clause;
      if (std::find(res.incidental.begin(), res.incidental.end(), c) == res.incidental.end()) res.incidental.push_back(c);
    }
  }

  void refreshRef() {
    if (refDirty) {
      ref.reset(&prog, &ext);
      refCore.reset(&prog, &ext);
      refCore.skipSingleUse = true;
      refDirty = false;
    }
  }
  EvalResult evalRef(int id) {
    refreshRef();
    return ref.eval(id);
  }
  // evaluation that does not follow single-use requests (see RefEval::skipSingleUse)
  EvalResult evalCore(int id) {
    refreshRef();
    return refCore.eval(id);
  }

  bool ruleSync(const RuleSpec& r) const { return forceSync || (buildNo <= syncBeforeBuild) || r.mode == 0; }

  void engineCallback(const char* where);

  // ---- BuildEngineDelegate
  std::unique_ptr<basic::ExecutionQueue> createExecutionQueue() override;
  std::unique_ptr<Rule> lookupRule(const KeyType& key) override;
  void determinedRuleNeedsToRun(Rule* rule, Rule::RunReason reason, Rule* inputRule) override;
  bool shouldResolveCycle(const std::vector<Rule*>& items, Rule* candidate, Rule::CycleAction action) override {
    engineCallback("shouldResolveCycle");
    return allowCycleBreak;
  }
  void cycleDetected(const std::vector<Rule*>& items) override;
  void error(const llvm::Twine& message) override {
    errorReported = true;
    lastError = message.str();
    ev(EV_ERROR, "", lastError);
  }

  // ---- ExecutionQueueDelegate
  void queueJobStarted(basic::JobDescriptor*) override {}
  void queueJobFinished(basic::JobDescriptor*) override {}
  void processStarted(basic::ProcessContext*, basic::ProcessHandle, llbuild_pid_t) override {}
  void processHadError(basic::ProcessContext*, basic::ProcessHandle, const Twine&) override {}
  void processHadOutput(basic::ProcessContext*, basic::ProcessHandle, StringRef) override {}
  void processFinished(basic::ProcessContext*, basic::ProcessHandle, const basic::ProcessResult&) override {}

  // ---- ops
  void load();
  void ensureEngine();
  void dropEngine();
  void opBuild(const Json& op);
  void afterBuild(const ValueType& result);
  void checkDatabase(const char* when);
  void doCancel(bool engineThread);
  void doRestart();
  void execute();
  void finishResult();
};

JobDesc g_jobDesc;

// ---- Rule / Task implementations

class SimRule : public Rule {
public:
  Run* run;
  int rid; // -1: unknown key
  SimRule(Run* run, const KeyType& key, uint64_t sig, int rid) : Rule(key, basic::CommandSignature(sig)), run(run), rid(rid) {}
  Task* createTask(BuildEngine&) override;
  bool isResultValid(BuildEngine&, const ValueType& value) override;
  void updateStatus(BuildEngine&, StatusKind status) override;
};

class SimTask : public Task {
public:
  Run* run;
  TaskState* st;
  SimTask(Run* run, TaskState* st) : run(run), st(st) {}
  ~SimTask() override {
    st->destroyed = true;
    run->openTasks--;
    run->ev(EV_TASK_DESTROYED, st->key);
  }
  void request(TaskInterface ti, int k, int t);
  void start(TaskInterface ti) override;
  void providePriorValue(TaskInterface ti, const ValueType& value) override;
  void provideValue(TaskInterface ti, uintptr_t inputID, const KeyType& key, const ValueType& value) override;
  void inputsAvailable(TaskInterface ti) override;
};

std::string toStr(const ValueType& v) { return std::string(v.begin(), v.end()); }
ValueType toVal(const std::string& s) { return ValueType(s.begin(), s.end()); }

void Run::engineCallback(const char* where) {
  cbCount++;
  if (!inBuild && engine) viol("C05.2", std::string("engine callback '") + where + "' delivered while no build is running");
  // createExecutionQueue is called with the engine's queue mutex held: cancelling from inside that one
  // delegate callback self-deadlocks by construction and is not a task callback (outside C05's quantifier)
  bool inQueueFactory = !strcmp(where, "createExecutionQueue");
  if (inBuild && cancel.on && !cancelIssued && (cancel.kind == 0 || cancel.kind == 1) && cbCount > cancel.n &&
      !(inQueueFactory && cancel.kind == 0)) {
    if (cancel.kind == 0) {
      doCancel(true);
    } else {
      cancelGo = true;
    }
  }
  // every engine callback is a scheduling point: foreign threads can act between any two callbacks
  sim::yield(where);
}

void Run::doCancel(bool engineThread) {
  cancelIssued = true;
  anyCancelEver = true;
  cancelOnEngineThread = engineThread;
  ev(EV_CANCEL, "", engineThread ? "engine-thread" : "foreign-thread", cbCount);
  ctr()[engineThread ? "cancel_engine_thread" : "cancel_foreign_thread"]++;
  // probes: what was the engine doing?
  int waiting = 0, computing = 0;
  for (auto& t : tasks)
    if (t->build == buildNo && !t->destroyed) {
      if (t->inputsAvail && !t->completeCalled) computing++;
      else if (t->started && !t->inputsAvail) waiting++;
    }
  if (waiting) ctr()["cancel_with_waiting_tasks"]++;
  if (computing) ctr()["cancel_with_computing_tasks"]++;
  if (waiting && computing) ctr()["cancel_with_waiting_and_computing"]++;
  engine->cancelBuild();
  if (cancel.twice) engine->cancelBuild();
  cancelReturned = true;
  cbAtCancel = cbCount;
}

std::unique_ptr<basic::ExecutionQueue> Run::createExecutionQueue() {
  engineCallback("createExecutionQueue");
  static const char* env[] = {nullptr};
  sim::set_child_role("queue");
  struct Clear { ~Clear() { sim::set_child_role(""); } } clear;
  if (queueKind == "serial") return basic::createSerialQueue(*this, env);
  int lanes = queueKind == "lane1" ? 1 : queueKind == "lane2" ? 2 : queueKind == "lane3" ? 3 : 4;
  return std::unique_ptr<basic::ExecutionQueue>(basic::createLaneBasedExecutionQueue(
      *this, lanes, queueAlg ? basic::SchedulerAlgorithm::FIFO : basic::SchedulerAlgorithm::NamePriority,
      basic::QualityOfService::Normal, env));
}

std::unique_ptr<Rule> Run::lookupRule(const KeyType& key) {
  int id = prog.idOf(key.str());
  ev(EV_LOOKUP, key.str());
  uint64_t sig = 1;
  if (id >= 0) sig = prog.get(id)->signature();
  return std::unique_ptr<Rule>(new SimRule(this, key, sig, id));
}

Task* SimRule::createTask(BuildEngine&) {
  Run* r = run;
  const std::string& k = key.str();
  r->ev(EV_CREATE_TASK, k);
  int c = ++r->createCount[k];
  if (c > 1) r->viol("C02.1", "rule " + util::printable(k) + " executed " + std::to_string(c) + " times in build " + std::to_string(r->buildNo));
  auto it = r->reasons.find(k);
  if (it == r->reasons.end())
    r->viol("C02.2", "rule " + util::printable(k) + " executed without a reported reason in build " + std::to_string(r->buildNo));
  KeyShadow& m = r->mem[k];
  m.interrupted = true; // until processed to completion
  m.interruptedIn = r->buildNo;
  auto st = std::unique_ptr<TaskState>(new TaskState());
  st->rid = rid;
  st->key = k;
  st->build = r->buildNo;
  TaskState* sp = st.get();
  r->tasks.push_back(std::move(st));
  r->openTasks++;
  r->engineCallback("createTask");
  return new SimTask(r, sp);
}

bool SimRule::isResultValid(BuildEngine&, const ValueType& value) {
  Run* r = run;
  const std::string& k = key.str();
  bool valid = true;
  const RuleSpec* spec = rid >= 0 ? r->prog.get(rid) : nullptr;
  if (spec && spec->leaf) {
    auto it = r->ext.find(rid);
    std::string cur = it == r->ext.end() ? std::string("-") : it->second;
    valid = toStr(value) == cur;
  } else if (r->invalidOnce.count(k)) {
    r->invalidOnce.erase(k);
    valid = false;
  }
  if (!valid) r->invalidReported.insert(k);
  r->ev(EV_VALID, k, valid ? "valid" : "invalid");
  r->engineCallback("isResultValid");
  return valid;
}

void SimRule::updateStatus(BuildEngine&, StatusKind status) {
  Run* r = run;
  const std::string& k = key.str();
  r->ev(EV_STATUS, k, status == StatusKind::IsScanning ? "scanning" : status == StatusKind::IsUpToDate ? "up-to-date" : "complete");
  KeyShadow& m = r->mem[k];
  if (status == StatusKind::IsUpToDate) {
    // probe: scanned clean although an input was re-validated in this same build
    for (auto& d : m.deps) {
      auto it = r->mem.find(d.key);
      if (it != r->mem.end() && it->second.validatedIn == r->buildNo) {
        r->cleanWithRevalidatedInput++;
        break;
      }
    }
    m.validatedIn = r->buildNo;
  } else if (status == StatusKind::IsComplete) {
    // processed completion: find the task
    TaskState* ts = nullptr;
    for (auto it = r->tasks.rbegin(); it != r->tasks.rend(); ++it)
      if ((*it)->key == k && (*it)->build == r->buildNo) {
        ts = it->get();
        break;
      }
    m.validatedIn = r->buildNo;
    m.hasExec = true;
    m.interrupted = false;
    if (ts) {
      m.deps = ts->reqOrder;
      m.deps.insert(m.deps.end(), ts->discovered.begin(), ts->discovered.end());
    }
    DbRow& row = r->dbv[k];
    row.value = m.value;
    row.sig = m.sig;
    row.builtEpoch = r->engineEpoch;
    row.computedEpoch = m.changeEpoch;
    row.builtBuild = r->buildNo;
    row.changedBuild = m.changedIn;
    row.deps = m.deps;
    ExecRec er;
    er.sig = row.sig;
    er.value = row.value;
    er.deps = row.deps;
    er.builtEpoch = row.builtEpoch;
    er.computedEpoch = row.computedEpoch;
    r->allExecs[k].push_back(er);
  }
  r->engineCallback("updateStatus");
}

void Run::determinedRuleNeedsToRun(Rule* rule, Rule::RunReason reason, Rule* inputRule) {
  const std::string& k = rule->key.str();
  std::string in = inputRule ? inputRule->key.str() : std::string();
  static const char* names[] = {"never-built", "signature-changed", "invalid-value", "input-rebuilt", "forced"};
  ev(EV_REASON, k, std::string(names[(int)reason]) + (inputRule ? ":" + in : ""));
  if (reasons.count(k))
    viol("C02.2", "two needs-to-run reports for " + util::printable(k) + " in one build");
  reasons[k] = {(int)reason, in};
  KeyShadow& m = mem[k];
  uint64_t curSig = rule->signature.value;
  std::string why;
  if (!m.interrupted) {
    switch (reason) {
    case Rule::RunReason::NeverBuilt:
      if (m.hasExec) why = "reported never-built, but a completed execution of this rule survives (build " + std::to_string(m.validatedIn) + ")";
      break;
    case Rule::RunReason::SignatureChanged:
      if (!m.hasExec) why = "reported signature-changed for a rule with no surviving execution";
      else if (m.sig == curSig) why = "reported signature-changed, but the signature equals the one of its last execution";
      break;
    case Rule::RunReason::InvalidValue:
      if (!invalidReported.count(k)) why = "reported invalid-value, but the rule's validity check did not return false in this build";
      break;
    case Rule::RunReason::InputRebuilt: {
      reasonInputRebuilt++;
      bool found = false;
      for (auto& d : m.deps)
        if (d.key == in && !d.orderOnly && !d.singleUse) found = true;
      auto it = mem.find(in);
      if (!found) {
        bool orderOnly = false;
        for (auto& d : m.deps)
          if (d.key == in) orderOnly = true;
        why = std::string("reported input-rebuilt for ") + util::printable(in) +
              (orderOnly ? ", which is only an order-only/single-use dependency" : ", which is not a recorded dependency");
      } else if (it == mem.end() || (!(it->second.changedIn > m.validatedIn) && !(it->second.interruptedIn > m.validatedIn))) {
        why = "reported input-rebuilt for " + util::printable(in) + ", whose value last changed in build " +
              std::to_string(it == mem.end() ? 0 : it->second.changedIn) + ", not after this rule was brought up to date in build " +
              std::to_string(m.validatedIn);
      }
      break;
    }
    case Rule::RunReason::Forced:
      if (!allowCycleBreak) why = "reported forced although cycle breaking is refused";
      break;
    }
  }
  if (!why.empty()) viol("C02.3", "rule " + util::printable(k) + ": " + why);
  engineCallback("determinedRuleNeedsToRun");
}

void Run::cycleDetected(const std::vector<Rule*>& items) {
  cycleReported = true;
  cycleKeys.clear();
  std::string txt;
  for (auto* r : items) {
    cycleKeys.push_back(r->key.str());
    txt += util::printable(r->key.str(), 16) + ">";
  }
  ev(EV_CYCLE, "", txt);
  ctr()["cycle_reports"]++;
  // C07.1 well-formedness
  std::string why;
  if (items.empty()) why = "empty cycle list";
  else if (cycleKeys[0] != targetKey) why = "list does not start at the requested key";
  else {
    bool repeats = false;
    for (size_t i = 0; i + 1 < cycleKeys.size(); i++)
      if (cycleKeys[i] == cycleKeys.back()) repeats = true;
    if (!repeats) why = "last key does not repeat an earlier one";
    for (size_t i = 0; i + 1 < cycleKeys.size() && why.empty(); i++) {
      const std::string& a = cycleKeys[i];
      const std::string& b = cycleKeys[i + 1];
      bool requested = requestedThisBuild[a].count(b) > 0;
      bool recorded = false;
      auto it = mem.find(a);
      if (it != mem.end())
        for (auto& d : it->second.deps)
          if (d.key == b) recorded = true;
      // dependency lists loaded from the database for keys whose shadow was rolled back
      auto dit = dbCommitted.find(a);
      if (dit != dbCommitted.end())
        for (auto& d : dit->second.deps)
          if (d.key == b) recorded = true;
      if (!requested && !recorded)
        why = "pair (" + util::printable(a, 16) + " -> " + util::printable(b, 16) + ") is neither a request made in this build nor a recorded dependency";
    }
  }
  if (!why.empty()) viol("C07.1", "malformed cycle report [" + txt + "]: " + why);
  // C07.3: no cycle in the union of current potential edges and recorded edges => false report
  {
    std::map<std::string, std::set<std::string>> g;
    std::map<int, std::set<int>> pe;
    potentialEdges(prog, &pe);
    for (auto& e : pe)
      for (int t : e.second)
        if (prog.get(e.first) && prog.get(t)) g[prog.get(e.first)->key].insert(prog.get(t)->key);
    for (auto& e : mem)
      for (auto& d : e.second.deps) g[e.first].insert(d.key);
    for (auto& e : dbCommitted)
      for (auto& d : e.second.deps) g[e.first].insert(d.key);
    // DFS cycle detection
    std::map<std::string, int> color;
    bool cyc = false;
    std::function<void(const std::string&)> dfs = [&](const std::string& u) {
      color[u] = 1;
      for (auto& v : g[u]) {
        if (cyc) return;
        int c = color[v];
        if (c == 1) { cyc = true; return; }
        if (c == 0) dfs(v);
      }
      color[u] = 2;
    };
    for (auto& e : g)
      if (!cyc && color[e.first] == 0) dfs(e.first);
    if (!cyc) viol("C07.3", "cycle reported [" + txt + "] but neither the current rules nor any recorded dependency list contain a cycle");
  }
  engineCallback("cycleDetected");
}

void SimTask::request(TaskInterface ti, int k, int t) {
  const RuleSpec* target = run->prog.get(k);
  if (!target) return;
  if (!st->requested.insert(k).second) return;
  st->outstanding[k] = t;
  if (t == FOLLOW) st->follows.insert(k);
  st->reqOrder.push_back({target->key, t == FOLLOW, t == SINGLE});
  run->requestedThisBuild[st->key].insert(target->key);
  run->ev(EV_REQUEST, st->key, target->key, t);
  if (t == REQ) ti.request(KeyType(target->key), (uintptr_t)k);
  else if (t == SINGLE) ti.requestSingleUse(KeyType(target->key), (uintptr_t)k);
  else ti.mustFollow(KeyType(target->key));
}

void SimTask::start(TaskInterface ti) {
  run->ev(EV_START, st->key);
  if (st->started) run->viol("C06.2", "start delivered twice to " + util::printable(st->key));
  st->started = true;
  run->engineCallback("start");
  const RuleSpec* r = st->rid >= 0 ? run->prog.get(st->rid) : nullptr;
  if (r && !r->leaf)
    for (auto& q : r->reqs) request(ti, q.k, q.t);
}

void SimTask::providePriorValue(TaskInterface, const ValueType& value) {
  run->ev(EV_PRIOR, st->key, toStr(value));
  if (!st->started || st->anyProvide || st->inputsAvail || st->priorGiven)
    run->viol("C06.2", "prior value for " + util::printable(st->key) + " delivered out of order (must follow start immediately, once)");
  st->priorGiven = true;
  // the prior value must be the value of the latest completion of this rule in this lineage
  KeyShadow& m = run->mem[st->key];
  if (!m.hasValue) run->viol("C06.2", "prior value delivered to " + util::printable(st->key) + " although no earlier result exists");
  else if (m.value != toStr(value)) run->viol("C06.2", "prior value delivered to " + util::printable(st->key) + " is not its previous result");
  run->engineCallback("providePriorValue");
}

void SimTask::provideValue(TaskInterface ti, uintptr_t inputID, const KeyType& key, const ValueType& value) {
  std::string v = toStr(value);
  run->ev(EV_PROVIDE, st->key, key.str() + "=" + v, (int64_t)inputID);
  st->anyProvide = true;
  int k = (int)inputID;
  auto it = st->outstanding.find(k);
  const RuleSpec* target = run->prog.get(k);
  if (!st->started || st->inputsAvail)
    run->viol("C06.2", "input delivered to " + util::printable(st->key) + " outside start..inputs-available");
  if (it == st->outstanding.end() || !target || target->key != key.str())
    run->viol("C06.2", "input " + util::printable(key.str()) + " (id " + std::to_string(k) + ") delivered to " + util::printable(st->key) +
                           " was not requested, was already delivered, or carries the wrong key");
  else if (it->second == FOLLOW)
    run->viol("C06.2", "value delivered for must-follow key " + util::printable(key.str()));
  if (target) {
    EvalResult e = run->evalCore(k);
    if (!e.cyclic && e.value != v)
      run->viol(run->anyCancelEver && run->property == "C05" ? "C05.5" : "C01.2",
                "task " + util::printable(st->key) + " was handed a stale value for input " + util::printable(key.str()) + ": got " +
                    util::printable(v) + ", current value is " + util::printable(e.value));
  }
  int t = it != st->outstanding.end() ? it->second : REQ;
  if (it != st->outstanding.end()) st->outstanding.erase(it);
  run->engineCallback("provideValue");
  const RuleSpec* r = st->rid >= 0 ? run->prog.get(st->rid) : nullptr;
  if (t == REQ) {
    st->delivered[k] = v;
    if (r)
      for (auto& d : r->dyn)
        if (d.on == k && pred(v, d.mod, d.rem)) request(ti, d.k, d.t);
  }
}

void SimTask::inputsAvailable(TaskInterface ti) {
  Run* r = run;
  r->ev(EV_INPUTS_AVAIL, st->key);
  if (!st->started) r->viol("C06.2", "inputs-available before start for " + util::printable(st->key));
  if (st->inputsAvail) r->viol("C06.2", "inputs-available delivered twice to " + util::printable(st->key));
  for (auto& o : st->outstanding)
    if (o.second != FOLLOW)
      r->viol("C06.2", "inputs-available for " + util::printable(st->key) + " before requested input id " + std::to_string(o.first) + " was delivered");
  // every must-follow key must be complete (brought up to date in this build)
  for (int f : st->follows) {
    const RuleSpec* t = r->prog.get(f);
    if (!t) continue;
    auto it = r->mem.find(t->key);
    if (it == r->mem.end() || it->second.validatedIn != r->buildNo)
      r->viol("C06.2", "inputs-available for " + util::printable(st->key) + " before must-follow key " + util::printable(t->key) + " completed");
  }
  st->inputsAvail = true;
  r->computingNow++;
  if (r->computingNow > r->maxComputing) r->maxComputing = r->computingNow;
  r->engineCallback("inputsAvailable");

  const RuleSpec* spec = st->rid >= 0 ? r->prog.get(st->rid) : nullptr;
  // compute the value and the discovered reads now (external state is stable during a build)
  std::string value;
  std::vector<std::string> discKeys;
  bool force = false;
  int mode = 0;
  unsigned delayUs = 0;
  if (!spec) {
    value = RefEval::missingValue(st->key);
  } else if (spec->leaf) {
    auto it = r->ext.find(spec->id);
    value = it == r->ext.end() ? std::string("-") : it->second;
    mode = r->ruleSync(*spec) ? 0 : spec->mode;
    delayUs = spec->delayUs;
  } else {
    std::map<int, std::string> reads;
    for (auto& d : spec->disc) {
      bool on = d.on < 0;
      if (!on) {
        auto it = st->delivered.find(d.on);
        on = it != st->delivered.end() && pred(it->second, d.mod, d.rem);
      }
      if (!on) continue;
      const RuleSpec* t = r->prog.get(d.k);
      if (!t || !t->leaf) continue;
      auto it = r->ext.find(d.k);
      reads[d.k] = it == r->ext.end() ? std::string("-") : it->second;
      discKeys.push_back(t->key);
    }
    value = computeValue(*spec, st->delivered, reads);
    force = spec->force;
    mode = r->ruleSync(*spec) ? 0 : spec->mode;
    delayUs = spec->delayUs;
  }
  for (auto& dk : discKeys) st->discovered.push_back({dk, false, false});

  TaskState* ts = st;
  std::string key = st->key;
  uint64_t sig = spec ? spec->signature() : 1;
  auto work = [r, ts, key, value, discKeys, force, ti, delayUs, sig](bool async) mutable {
    if (async) {
      if (delayUs) sim::sleep_ns((uint64_t)delayUs * 1000ULL);
      sim::yield("job");
      if (r->cancel.on && r->cancel.kind == 3 && !r->cancelIssued && ++r->jobsSeen > r->cancel.n % 4) r->doCancel(false);
    }
    for (auto& dk : discKeys) {
      r->ev(EV_DISCOVERED, key, dk);
      ti.discoveredDependency(KeyType(dk));
      if (async) sim::yield("discovered");
    }
    // shadow of what the engine does inside complete(): value/signature/changed epoch move now,
    // whether or not the completion is later processed
    KeyShadow& m = r->mem[key];
    std::string prev = m.hasValue ? m.value : std::string();
    bool changed = force || value != prev;
    m.hasValue = true;
    m.value = value;
    m.sig = sig;
    if (changed) {
      m.changedIn = r->buildNo;
      m.changeEpoch = r->engineEpoch;
    }
    ts->completeCalled = true;
    r->computingNow--;
    r->ev(EV_COMPLETE, key, value, force);
    ti.complete(toVal(value), force);
  };
  if (mode == 0) {
    work(false);
  } else if (mode == 1) {
    ti.spawn(basic::QueueJob(&g_jobDesc, [work](basic::QueueJobContext*) mutable { work(true); }));
  } else {
    sim::spawn("completer", [work]() mutable { work(true); });
  }
}

// ---- tiny delegate for reading the database back with a fresh connection
struct ReadbackDelegate : public BuildDBDelegate {
  llvm::StringMap<bool> table;
  const KeyID getKeyID(const KeyType& key) override {
    auto it = table.insert(std::make_pair(key.str(), false)).first;
    return KeyID(it->getKey().data());
  }
  KeyType getKeyForID(const KeyID key) override {
    return llvm::StringMapEntry<bool>::GetStringMapEntryFromKeyData((const char*)(uintptr_t)key).getKey();
  }
};

void Run::load() {
  property = plan.gets("property");
  const Json* cfg = plan.find("config");
  Json empty = Json::obj();
  if (!cfg) cfg = &empty;
  useDb = cfg->getb("db");
  queueKind = cfg->gets("queue", "serial");
  queueAlg = (int)cfg->getn("alg");
  clientVersion = (uint32_t)cfg->getn("client_version", 1);
  forceSync = cfg->getb("force_sync");
  syncBeforeBuild = (int)cfg->getn("sync_before_build", 0);
  restartEveryBuild = cfg->getb("restart_every_build");
  dropRestarts = cfg->getb("drop_restarts");
  for (auto& j : plan.geta("rules")) {
    RuleSpec r = RuleSpec::fromJson(j);
    if (r.id > 0) prog.rules[r.id] = r;
  }
  prog.normalise();
  for (auto& j : plan.geta("ext")) ext[(int)j.getn("k")] = util::unhex(j.gets("v"));
  // every leaf has a value
  for (auto& e : prog.rules)
    if (e.second.leaf && !ext.count(e.first)) ext[e.first] = "init" + std::to_string(e.first);
  util::Hasher sh;
  sh.u64(prog.rules.size());
  for (auto& e : prog.rules) {
    sh.u64(e.second.signature());
    sh.u64((uint64_t)e.second.mode);
  }
  for (auto& j : plan.geta("history")) sh.str(j.gets("op"));
  sh.str(queueKind);
  sh.u64(useDb);
  res.shape = sh.get();
}

void Run::ensureEngine() {
  if (engine) return;
  engine.reset(new BuildEngine(*this));
  attachFailed = false;
  if (useDb) {
    std::string err;
    auto db = createSQLiteBuildDB(dbPath, clientVersion, /*recreateUnmatchedVersion=*/true, &err);
    if (!db || !engine->attachDB(std::move(db), &err)) {
      attachFailed = true;
      attachError = err;
      ev(EV_ERROR, "", "attach: " + err);
    }
  }
}

void Run::dropEngine() {
  engine.reset();
}

void Run::checkDatabase(const char* when) {
  if (!useDb || attachFailed) return;
  std::string err;
  auto db = createSQLiteBuildDB(dbPath, clientVersion, false, &err);
  ReadbackDelegate del;
  db->attachDelegate(&del);
  std::vector<KeyType> keys;
  std::vector<Result> results;
  if (!db->getKeysWithResult(keys, results, &err)) {
    viol("C03.2", std::string("database cannot be read back ") + when + ": " + err);
    return;
  }
  bool ok = false;
  std::string e2;
  uint64_t iteration = db->getCurrentEpoch(&ok, &e2);
  ctr()["db_readbacks"]++;
  std::map<std::string, size_t> seen;
  for (size_t i = 0; i < keys.size(); i++) {
    const std::string& k = keys[i].str();
    if (seen.count(k)) {
      viol("C03.2", "database holds two results for key " + util::printable(k));
      continue;
    }
    seen[k] = i;
    auto it = dbCommitted.find(k);
    if (it == dbCommitted.end()) {
      viol(anyCancelEver ? "C05.4" : "C03.2", "database holds a result for " + util::printable(k) + " that no processed execution produced (" + when + ")");
      continue;
    }
    const DbRow& row = it->second;
    const Result& r = results[i];
    std::string why;
    if (toStr(r.value) != row.value) why = "value differs: stored " + util::printable(toStr(r.value)) + ", produced " + util::printable(row.value);
    else if (r.signature.value != row.sig) why = "signature differs";
    else if (r.builtAt != row.builtEpoch) why = "built-at epoch " + std::to_string(r.builtAt) + " != " + std::to_string(row.builtEpoch);
    else if (r.computedAt != row.computedEpoch) why = "computed-at epoch " + std::to_string(r.computedAt) + " != " + std::to_string(row.computedEpoch);
    else if (r.builtAt > iteration || r.computedAt > iteration) why = "result epoch exceeds the stored iteration " + std::to_string(iteration);
    else {
      std::vector<DepRec> got;
      for (auto d : r.dependencies) got.push_back({del.getKeyForID(d.keyID).str(), d.orderOnly, d.singleUse});
      // The engine records a dependency when the request is finally serviced, which is later than
      // the request call whenever the requested rule first has to be scanned; the list is therefore
      // compared as a multiset of (key, flags).  Order preservation by the database is decided
      // behaviourally by the restart differential (scan order of the next build).
      auto canon = [](std::vector<DepRec> v) {
        std::sort(v.begin(), v.end(), [](const DepRec& a, const DepRec& b) {
          if (a.key != b.key) return a.key < b.key;
          if (a.orderOnly != b.orderOnly) return a.orderOnly < b.orderOnly;
          return a.singleUse < b.singleUse;
        });
        return v;
      };
      if (!(canon(got) == canon(row.deps))) {
        why = "dependency list differs: stored [";
        for (auto& d : got) why += util::printable(d.key, 12) + (d.orderOnly ? "/o" : "") + (d.singleUse ? "/s" : "") + " ";
        why += "] recorded [";
        for (auto& d : row.deps) why += util::printable(d.key, 12) + (d.orderOnly ? "/o" : "") + (d.singleUse ? "/s" : "") + " ";
        why += "]";
      }
    }
    if (!why.empty()) viol("C03.2", "read-back of " + util::printable(k) + " " + when + ": " + why);
  }
  for (auto& e : dbCommitted)
    if (!seen.count(e.first)) viol("C03.2", "result of " + util::printable(e.first) + " is missing from the database " + when);
}

void Run::opBuild(const Json& op) {
  int k = (int)op.getn("k");
  const RuleSpec* target = prog.get(k);
  if (!target) return;
  if (restartEveryBuild && buildNo > 0) doRestart();
  ensureEngine();
  buildNo++;
  targetKey = target->key;
  targetId = k;
  cbCount = 0;
  createCount.clear();
  reasons.clear();
  invalidReported.clear();
  requestedThisBuild.clear();
  cycleReported = errorReported = false;
  cancelIssued = cancelReturned = cancelOnEngineThread = false;
  cbAtCancel = -1;
  cancelGo = cancelAbort = false;
  cancelDone = true;
  jobsSeen = 0;
  cancel = CancelSpec();
  if (const Json* c = op.find("cancel")) {
    cancel.on = true;
    cancel.kind = (int)c->getn("kind");
    cancel.n = (int)c->getn("n");
    cancel.yields = (int)c->getn("yields");
    cancel.twice = c->getb("twice");
  }
  if (attachFailed) {
    ev(EV_BUILD_END, targetKey, "attach-failed");
    BuildSummary s;
    s.target = targetKey;
    summaries.push_back(s);
    dropEngine();
    return;
  }
  if (prevBuildCancelled || engine->isCancelled()) engine->resetForBuild();
  prevBuildCancelled = false;
  engineEpoch = engine->getCurrentEpoch() + 1;
  ev(EV_BUILD_BEGIN, targetKey);
  inBuild = true;
  ctr()["builds"]++;

  // canceller threads
  if (cancel.on && (cancel.kind == 1 || cancel.kind == 2)) {
    cancelDone = false;
    sim::spawn("canceller", [this]() {
      if (cancel.kind == 1) {
        sim::block_until([this]() { return cancelGo || cancelAbort; }, 0, "cancel-gate");
      } else {
        for (int i = 0; i < cancel.yields && !cancelAbort; i++) sim::yield("canceller");
      }
      if (!cancelAbort && inBuild) doCancel(false);
      else ctr()["cancel_too_late"]++;
      cancelDone = true;
    });
  }

  const ValueType& result = engine->build(KeyType(targetKey));
  inBuild = false;
  ValueType copy = result;
  cancelAbort = true;
  cancelGo = true;
  if (!cancelDone) sim::block_until([this]() { return cancelDone; }, 0, "join-canceller");
  afterBuild(copy);
}

void Run::doRestart() {
  ev(EV_RESTART, "");
  dropEngine();
  restartsDone++;
  restartedSinceBuild = true;
  ctr()["restarts"]++;
  if (!useDb) {
    mem.clear();
    changedSince = true;
    return;
  }
  // roll the in-memory shadow back to what the database holds
  std::map<std::string, KeyShadow> nm;
  for (auto& e : dbCommitted) {
    KeyShadow s;
    s.hasExec = s.hasValue = true;
    s.value = e.second.value;
    s.sig = e.second.sig;
    s.deps = e.second.deps;
    s.changedIn = e.second.changedBuild;
    s.validatedIn = e.second.builtBuild;
    s.changeEpoch = e.second.computedEpoch;
    nm[e.first] = s;
  }
  mem.swap(nm);
  dbv = dbCommitted;
}

void Run::afterBuild(const ValueType& result) {
  std::string got = toStr(result);
  bool failedRun = cycleReported || errorReported;
  ev(EV_BUILD_END, targetKey, got, failedRun || cancelIssued);
  EvalResult e = evalRef(targetId);

  BuildSummary s;
  s.target = targetKey;
  s.result = got;
  for (auto& c : createCount) s.executed.insert(c.first);
  for (auto& r : reasons) s.reason[r.first] = r.second.first;

  if (cancelIssued) {
    ctr()["builds_cancelled"]++;
    prevBuildCancelled = true;
    // cancelBuild() had returned before the engine delivered another callback (or was called from
    // inside one): the engine checks the flag at the top of every loop iteration, and every callback
    // is followed by at least one more iteration, so the build cannot succeed.
    bool mustFail = cancelOnEngineThread || (cbAtCancel >= 0 && cbCount > cbAtCancel);
    if (mustFail && !got.empty())
      viol("C05.1", "build returned a value although cancelBuild() had returned before further task callbacks were delivered");
    if (got.empty()) ctr()["cancel_build_failed"]++;
    else ctr()["cancel_build_completed_anyway"]++;
  }
  if (openTasks != 0)
    viol(cancelIssued ? "C05.3" : "C06.2", std::to_string(openTasks) + " task object(s) created by the build were not destroyed when it returned");
  int strayQueue = sim::live_with_role_prefix("queue");
  if (strayQueue)
    viol(cancelIssued ? "C05.3" : "C06.2", std::to_string(strayQueue) + " execution-queue thread(s) still alive after build() returned");

  bool success = !failedRun && !got.empty();
  EvalResult core = evalCore(targetId);
  if (!cancelIssued && !failedRun && got.empty())
    viol(e.cyclic ? "C07.2" : "C01.1",
         "build of " + util::printable(targetKey) + " returned the empty (failure) value without a cycle report, error or cancellation");
  s.ok = success;
  bool afterCancel = anyCancelEver && property == "C05";
  if (success) {
    if (core.cyclic) {
      viol("C07.2", "build of " + util::printable(targetKey) + " succeeded although computing it requires a dependency cycle");
    } else if (got != core.value) {
      viol(afterCancel ? "C05.5" : "C01.1", "build " + std::to_string(buildNo) + " of " + util::printable(targetKey) + " returned " +
                                                 util::printable(got) + " but a from-scratch build computes " + util::printable(core.value));
    }
    if (e.cyclic && !core.cyclic) ctr()["probe_single_use_only_cycle_not_traversed"]++;
    ctr()["builds_ok"]++;
  } else if (cycleReported) {
    ctr()["builds_cycle"]++;
  } else if (errorReported) {
    ctr()["builds_error"]++;
  }
  if (core.cyclic && !cycleReported && !cancelIssued && !errorReported)
    viol("C07.2", "computing " + util::printable(targetKey) + " requires a cycle, but the build neither reported one nor failed");
  if (e.cyclic) ctr()["targets_cyclic"]++;

  // probes
  if (!s.executed.empty()) {
    bool skipped = false;
    for (auto& m : mem)
      if (m.second.validatedIn == buildNo && !s.executed.count(m.first)) skipped = true;
    if (skipped && buildNo > 1) {
      incrementalMixed++;
      if (restartedSinceBuild) skippedAfterRestart++;
    }
  } else if (restartedSinceBuild && success && useDb) {
    skippedAfterRestart++;
  }
  restartedSinceBuild = false;
  // C02.4: null build executes nothing
  if (success && nullBuildExpected) {
    ctr()["null_builds_checked"]++;
    if (!s.executed.empty()) {
      std::string names;
      for (auto& k : s.executed) names += util::printable(k, 16) + " ";
      viol("C02.4", "a build with no change since the previous successful build of the same key executed: " + names);
    }
  }
  if (success) {
    lastOkTarget = targetKey;
    changedSince = false;
  } else {
    changedSince = true;
  }
  summaries.push_back(s);

  // the database transaction of this build is committed by now (the engine closed the connection)
  if (useDb) {
    dbCommitted = dbv;
    checkDatabase(("after build " + std::to_string(buildNo)).c_str());
  }
}

void Run::execute() {
  load();
  for (auto& op : plan.geta("history")) {
    std::string kind = op.gets("op");
    if (kind == "build") {
      int k = (int)op.getn("k");
      const RuleSpec* t = prog.get(k);
      nullBuildExpected = t && !changedSince && lastOkTarget == t->key && !op.find("cancel") && invalidOnce.empty();
      opBuild(op);
    } else if (kind == "set") {
      int k = (int)op.getn("k");
      const RuleSpec* t = prog.get(k);
      if (!t || !t->leaf) continue;
      ext[k] = util::unhex(op.gets("v"));
      refDirty = true;
      changedSince = true;
      ev(EV_SET, t->key, ext[k]);
    } else if (kind == "restart") {
      if (dropRestarts) continue;
      if (engine || buildNo > 0) doRestart();
    } else if (kind == "invalidate") {
      const RuleSpec* t = prog.get((int)op.getn("k"));
      if (!t || t->leaf) continue;
      invalidOnce.insert(t->key);
      changedSince = true;
      ev(EV_NOTE, t->key, "invalidate");
    } else if (kind == "resig") {
      auto it = prog.rules.find((int)op.getn("k"));
      if (it == prog.rules.end()) continue;
      // a rule's signature is fixed for the lifetime of an engine: new definition => new engine
      if (engine || buildNo > 0) doRestart();
      it->second.nonce = (uint64_t)op.getn("nonce");
      changedSince = true;
      ev(EV_NOTE, it->second.key, "resig");
    } else if (kind == "reprog") {
      auto it = prog.rules.find((int)op.getn("k"));
      const Json* rj = op.find("rule");
      if (it == prog.rules.end() || !rj) continue;
      if (engine || buildNo > 0) doRestart();
      RuleSpec nr = RuleSpec::fromJson(*rj);
      nr.id = it->second.id;
      nr.key = it->second.key;
      nr.leaf = it->second.leaf;
      nr.mode = it->second.mode;
      nr.delayUs = it->second.delayUs;
      it->second = nr;
      prog.normalise();
      refDirty = true;
      changedSince = true;
      ev(EV_NOTE, nr.key, "reprog");
    }
  }
  dropEngine();
}

void Run::finishResult() {
  res.evhash = evh.get();
  res.ihash = sim::interleaving_hash();
  res.steps = sim::steps();
  res.decisions = sim::decisions();
  auto st = sim::stats();
  ctr()["sched_switches"] += st.switches;
  ctr()["sched_threads"] += st.threads;
  ctr()["sched_mutex_blocks"] += st.mutexBlocks;
  ctr()["sched_cond_waits"] += st.condWaits;
  ctr()["sched_lost_signals"] += st.condSignalsLost;
  ctr()["sched_choice_points"] += st.choicePoints;
  ctr()["sched_time_jumps"] += st.timeJumps;
  if (maxComputing >= 2) ctr()["runs_with_concurrent_tasks"]++;
  auto vs = simvfs::stats();
  ctr()["vfs_calls"] += vs.calls;
  ctr()["vfs_writes"] += vs.writes;
  ctr()["vfs_syncs"] += vs.syncs;
  ctr()["vfs_busy"] += vs.busy;
  ctr()["probe_incremental_mixed_builds"] += (uint64_t)incrementalMixed;
  ctr()["probe_reason_input_rebuilt"] += (uint64_t)reasonInputRebuilt;
  ctr()["probe_clean_scan_with_revalidated_input"] += (uint64_t)cleanWithRevalidatedInput;
  ctr()["probe_skip_after_restart"] += (uint64_t)skippedAfterRestart;
  // sample rendering
  std::string s = "keys=" + std::to_string(prog.rules.size()) + " db=" + (useDb ? "1" : "0") + " queue=" + queueKind + " ops=[";
  for (auto& op : plan.geta("history")) {
    s += op.gets("op");
    if (op.find("cancel")) s += "+cancel";
    s += " ";
  }
  s += "] builds=" + std::to_string(buildNo);
  res.sample = s;
  // non-triviality per property
  if (property == "C01") res.nontrivial = incrementalMixed > 0;
  else if (property == "C02") res.nontrivial = reasonInputRebuilt > 0 && cleanWithRevalidatedInput > 0;
  else if (property == "C03") res.nontrivial = restartsDone >= 2 && skippedAfterRestart > 0;
  else if (property == "C05") res.nontrivial = res.counters["cancel_with_waiting_tasks"] > 0 || res.counters["cancel_with_computing_tasks"] > 0;
  else if (property == "C06") res.nontrivial = maxComputing >= 2 && st.switches > 4;
  else if (property == "C07") res.nontrivial = res.counters["cycle_reports"] > 0 || res.counters["targets_cyclic"] > 0 || incrementalMixed > 0;
  else res.nontrivial = buildNo >= 2;
}

// ---- fatal (hang / livelock) reporting
void onFatal(sim::EndKind kind, const std::vector<sim::ThreadDump>& threads) {
  Run* r = g_run;
  RunResult out;
  if (!r) {
    out.status = "harness";
    out.detail = "fatal outside a run";
    runner::fatal_result(out);
  }
  std::string dump;
  for (auto& t : threads) dump += "  thread " + std::to_string(t.id) + " [" + t.role + "] " + t.state + "\n";
  r->finishResult();
  out = r->res;
  if (!r->verdict) {
    std::string clause;
    EvalResult e = r->targetId ? r->evalRef(r->targetId) : EvalResult();
    if (r->property == "C05" && (r->cancelIssued || r->anyCancelEver)) clause = "C05.1";
    else if (r->property == "C07") clause = "C07.4";
    else if (r->property == "C06") clause = "C06.3";
    else if (r->cancelIssued) clause = "C05.1";
    else if (e.cyclic) clause = "C07.4";
    else clause = "C06.3";
    std::string detail = std::string(kind == sim::EndKind::Hang ? "HANG: no simulated thread can run and no timer is pending" : "LIVELOCK: step limit exceeded") +
                         " (build " + std::to_string(r->buildNo) + " of " + util::printable(r->targetKey) + ")\n" + dump + "--- last events ---\n" + r->renderTail();
    bool mine = clause.compare(0, r->property.size() + 1, r->property + ".") == 0;
    if (mine) {
      out.status = kind == sim::EndKind::Hang ? "hang" : "livelock";
      out.clause = clause;
      out.detail = detail;
    } else {
      out.incidental.push_back(clause);
    }
  }
  runner::fatal_result(out);
}

class EngineWorld : public runner::World {
public:
  std::string property;
  explicit EngineWorld(const std::string& p) : property(p) {}

  void warmup() override {
    simvfs::install();
    sim::set_fatal_handler(onFatal);
  }

  Json generate(uint64_t seed, const runner::GenOptions& opt) override {
    return EngineGen::generate(seed, opt, featuresFor(property, opt));
  }

  RunResult execute(const Json& plan) override {
    Run run(plan);
    g_run = &run;
    // fresh world
    simfs::setFS(std::unique_ptr<simfs::FS>(new simfs::FS()));
    simvfs::reset_stats();
    simvfs::reset_counter();
    simvfs::set_hook(nullptr);
    const Json* cfg = plan.find("config");
    sim::SchedConfig sc;
    if (cfg) {
      sc.seed = (uint64_t)cfg->getn("sched_seed", 1);
      sc.policy = (int)cfg->getn("policy", sim::POLICY_STICKY);
      sc.stickyPermille = (int)cfg->getn("sticky", 900);
      sc.pctDepth = (int)cfg->getn("pct", 2);
    }
    simvfs::set_random_seed(sc.seed);
    if (plan.find("decisions")) {
      sc.useReplay = true;
      for (auto& d : plan.geta("decisions")) sc.replay.push_back((uint32_t)d.n);
    }
    sim::begin(sc);
    sim::set_role("engine");
    uint64_t t0 = sim::now_ns();
    run.execute();
    run.res.simtime_us = (sim::now_ns() - t0) / 1000;
    run.finishResult();
    sim::end();
    g_run = nullptr;
    return run.res;
  }
};

} // namespace

EngineFeatures featuresFor(const std::string& property, const runner::GenOptions& opt) {
  EngineFeatures f;
  bool thorough = opt.tier == "thorough";
  if (thorough) {
    f.maxKeys = 14;
    f.maxOps = 10;
  }
  if (property == "C01" || property == "C02") {
    f.asyncPermille = 300;
  } else if (property == "C03") {
    f.dbPermille = 1000;
    f.numericKeys = true;
  } else if (property == "C04") {
    f.dbPermille = 1000;
  } else if (property == "C05") {
    f.cancel = true;
    f.cancelPermille = 600;
    f.asyncPermille = 800;
  } else if (property == "C06") {
    f.asyncPermille = 1000;
  } else if (property == "C07") {
    f.cycles = true;
    f.cyclePermille = 700;
    f.asyncPermille = 300;
  }
  return f;
}

runner::World* makeEngineWorld(const std::string& property) { return new EngineWorld(property); }

} // namespace wa
