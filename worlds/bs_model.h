// World B model: build descriptions, the simulated compiler's semantics (shared by the simulated
// process and by the clean-build reference), YAML emission (DESIGN 4 "World B generator").
#pragma once
#include "sim/util.h"

#include <functional>
#include <map>
#include <set>
#include <string>
#include <vector>

namespace wb {

struct Cmd {
  std::string name;
  std::string tool = "shell";        // shell | phony | mkdir | symlink | stale-file-removal
  std::vector<std::string> inputs, outputs;
  uint64_t salt = 0;                 // part of the tool's arguments (and therefore of the signature)
  std::string deps;                  // dependency file path ("" = none)
  std::string style;                 // makefile | dependency-info | makefile-ignoring-subsequent-outputs
  std::vector<std::pair<std::string, std::string>> env;
  std::vector<std::string> extra;    // paths the tool reads without declaring them (reported through deps)
  bool always = false;               // always-out-of-date
  bool inheritEnv = true;
  bool safeInterrupt = true;
  bool allowMissing = false;
  bool allowModified = false;        // allow-modified-outputs
  bool strictExtra = false;          // (tool semantics, not a build-system attribute) the tool fails when a file it reads without declaring it is absent
  std::string signature;             // explicit signature ("" = computed)
  std::string contents;              // symlink tool
  std::vector<std::string> expected, roots;   // stale-file-removal
  std::vector<std::string> pad;      // extra arguments without meaning to the tool (argument-boundary edits)
  std::string workdir;               // working-directory ("" = none)

  util::Json toJson() const;
  static Cmd fromJson(const util::Json& j);
  // every part of the definition that the documentation says is signature relevant
  uint64_t definitionHash() const;
  std::vector<std::string> argv() const;
};

struct Desc {
  std::vector<Cmd> cmds;
  std::map<std::string, std::vector<std::string>> targets;
  std::map<std::string, std::vector<std::pair<std::string, std::string>>> nodeAttrs;
  std::string fsmode;                // "" | device-agnostic | checksum-only
  util::Json toJson() const;
  static Desc fromJson(const util::Json& j);
  std::string toYaml() const;
  const Cmd* producer(const std::string& path) const;
  const Cmd* byName(const std::string& name) const;
  void normalise();                  // drop duplicate producers / commands with duplicate names
};

inline bool isVirtualNode(const std::string& n) { return n.size() >= 2 && n.front() == '<' && n.back() == '>'; }
inline bool isDirNode(const std::string& n) { return !n.empty() && n.back() == '/'; }
// by the generator's convention the output of a symlink command is called *.lnk
// ... and the output of a mkdir command *.dir (a plain node naming a directory; consumers only wait for it)
inline bool isMkdirNode(const std::string& n) { return n.size() > 4 && n.compare(n.size() - 4, 4, ".dir") == 0; }
inline bool isLinkNode(const std::string& n) { return n.size() > 4 && n.compare(n.size() - 4, 4, ".lnk") == 0; }

// What the tool does with what it reads.  `read` returns false when the path does not exist.
struct ToolResult {
  bool ok = false;
  std::string error;
  std::vector<std::string> outputs;                 // content per declared file output, in order
  std::vector<std::string> discovered;              // existing paths read that were not declared inputs
  std::vector<std::string> missing;                 // paths looked for and not found (extra reads / includes)
  std::map<std::string, std::string> reads;         // everything read: path -> content
};
typedef std::function<bool(const std::string& path, std::string* content)> ReadFn;
ToolResult toolCompute(const Cmd& c, const ReadFn& read);

// how the tool spells a path (relative to the build's directory) in its dependency file: Makefile-style files of a command
// with a working directory name relative paths from that directory
std::string depSpelling(const Cmd& c, const std::string& path);

// dependency file renderings
std::string renderMakefileDeps(const std::string& target, const std::vector<std::string>& paths, int variant);
std::string renderDependencyInfo(const std::vector<std::string>& inputs, const std::vector<std::string>& missing,
                                 const std::vector<std::string>& outputs);
std::string yamlQuote(const std::string& s);

} // namespace wb
