#include "worlds/bs_model.h"

#include <algorithm>

using util::Json;

namespace wb {

static Json strList(const std::vector<std::string>& v) {
  Json a = Json::arr();
  for (auto& s : v) a.push(Json::str(util::hex(s)));
  return a;
}
static std::vector<std::string> listStr(const std::vector<Json>& a) {
  std::vector<std::string> v;
  for (auto& j : a) v.push_back(util::unhex(j.s));
  return v;
}

Json Cmd::toJson() const {
  Json j = Json::obj();
  j.set("name", util::hex(name)).set("tool", tool).set("inputs", strList(inputs)).set("outputs", strList(outputs));
  j.set("salt", (int64_t)salt).set("deps", util::hex(deps)).set("style", style);
  Json e = Json::arr();
  for (auto& kv : env) e.push(Json::obj().set("k", util::hex(kv.first)).set("v", util::hex(kv.second)));
  j.set("env", e).set("extra", strList(extra)).setb("always", always).setb("inherit_env", inheritEnv).setb("safe_interrupt", safeInterrupt);
  j.setb("strict_extra", strictExtra);
  j.setb("allow_modified", allowModified).setb("allow_missing", allowMissing).set("signature", util::hex(signature)).set("contents", util::hex(contents));
  j.set("expected", strList(expected)).set("roots", strList(roots)).set("pad", strList(pad)).set("workdir", util::hex(workdir));
  return j;
}

Cmd Cmd::fromJson(const Json& j) {
  Cmd c;
  c.name = util::unhex(j.gets("name"));
  c.tool = j.gets("tool", "shell");
  c.inputs = listStr(j.geta("inputs"));
  c.outputs = listStr(j.geta("outputs"));
  c.salt = (uint64_t)j.getn("salt");
  c.deps = util::unhex(j.gets("deps"));
  c.style = j.gets("style");
  for (auto& e : j.geta("env")) c.env.push_back({util::unhex(e.gets("k")), util::unhex(e.gets("v"))});
  c.extra = listStr(j.geta("extra"));
  c.always = j.getb("always");
  c.inheritEnv = j.getb("inherit_env", true);
  c.safeInterrupt = j.getb("safe_interrupt", true);
  c.allowMissing = j.getb("allow_missing");
  c.allowModified = j.getb("allow_modified");
  c.strictExtra = j.getb("strict_extra");
  c.signature = util::unhex(j.gets("signature"));
  c.contents = util::unhex(j.gets("contents"));
  c.expected = listStr(j.geta("expected"));
  c.roots = listStr(j.geta("roots"));
  c.pad = listStr(j.geta("pad"));
  c.workdir = util::unhex(j.gets("workdir"));
  return c;
}

std::vector<std::string> Cmd::argv() const {
  std::vector<std::string> a = {"/sim/bin/cc", name, "--salt", std::to_string(salt)};
  for (auto& x : extra) {
    a.push_back("--extra");
    a.push_back(x);
  }
  for (auto& p : pad) a.push_back(p);
  return a;
}

uint64_t Cmd::definitionHash() const {
  util::Hasher h;
  h.str(name);
  h.str(tool);
  h.u64(inputs.size());
  for (auto& s : inputs) h.str(s);
  h.u64(outputs.size());
  for (auto& s : outputs) h.str(s);
  if (!signature.empty() && tool == "shell") {
    h.str(signature);
    for (auto& a : argv()) h.str(a);
    for (auto& kv : env) {
      h.str(kv.first);
      h.str(kv.second);
    }
    h.str(deps);
    h.str(style);
  } else {
    for (auto& a : argv()) h.str(a);
    h.u64(env.size());
    for (auto& kv : env) {
      h.str(kv.first);
      h.str(kv.second);
    }
    h.str(deps);
    h.str(style);
    h.u64(inheritEnv);
    h.u64(safeInterrupt);
  }
  h.u64(always);
  h.u64(allowMissing);
  h.u64(allowModified);
  h.str(contents);
  for (auto& s : expected) h.str(s);
  for (auto& s : roots) h.str(s);
  return h.get();
}

Json Desc::toJson() const {
  Json j = Json::obj();
  Json c = Json::arr();
  for (auto& x : cmds) c.push(x.toJson());
  j.set("commands", c);
  Json t = Json::arr();
  for (auto& e : targets) t.push(Json::obj().set("name", util::hex(e.first)).set("nodes", strList(e.second)));
  j.set("targets", t);
  Json n = Json::arr();
  for (auto& e : nodeAttrs) {
    Json attrs = Json::arr();
    for (auto& kv : e.second) attrs.push(Json::obj().set("k", kv.first).set("v", kv.second));
    n.push(Json::obj().set("node", util::hex(e.first)).set("attrs", attrs));
  }
  j.set("nodes", n);
  j.set("fsmode", fsmode);
  return j;
}

Desc Desc::fromJson(const Json& j) {
  Desc d;
  for (auto& c : j.geta("commands")) d.cmds.push_back(Cmd::fromJson(c));
  for (auto& t : j.geta("targets")) d.targets[util::unhex(t.gets("name"))] = listStr(t.geta("nodes"));
  for (auto& n : j.geta("nodes")) {
    auto& v = d.nodeAttrs[util::unhex(n.gets("node"))];
    for (auto& kv : n.geta("attrs")) v.push_back({kv.gets("k"), kv.gets("v")});
  }
  d.fsmode = j.gets("fsmode");
  d.normalise();
  return d;
}

void Desc::normalise() {
  std::set<std::string> names, produced;
  std::vector<Cmd> keep;
  for (auto& c : cmds) {
    if (c.name.empty() || !names.insert(c.name).second) continue;
    std::vector<std::string> outs;
    for (auto& o : c.outputs)
      if (produced.insert(o).second) outs.push_back(o);
    Cmd k = c;
    k.outputs = outs;
    if (k.outputs.empty() && k.tool != "stale-file-removal") continue;
    keep.push_back(k);
  }
  cmds = keep;
  // A command that reads through a link declares what the link names as well (commands are functions of their declared and
  // discovered inputs; a link node's value is the link, not what it points to).  Description edits and the shrinker can
  // drop that input: put it back.  A symlink command waits for the producer of what it names.
  for (auto& c : cmds) {
    if (c.tool != "shell") continue;
    std::vector<std::string> add;
    for (auto& i : c.inputs) {
      if (!isLinkNode(i)) continue;
      const Cmd* s = producer(i);
      if (s && s->tool == "symlink" && !s->contents.empty() && std::find(c.inputs.begin(), c.inputs.end(), s->contents) == c.inputs.end()) add.push_back(s->contents);
    }
    for (auto& a : add) c.inputs.push_back(a);
  }
}

std::string depSpelling(const Cmd& c, const std::string& path) {
  if (c.workdir.empty() || c.style == "dependency-info" || path.empty() || path[0] == '/') return path;
  if (path.compare(0, c.workdir.size() + 1, c.workdir + "/") == 0) return path.substr(c.workdir.size() + 1);
  std::string up;
  for (size_t i = 0; i <= c.workdir.size(); i++)
    if (i == c.workdir.size() || c.workdir[i] == '/') up += "../";
  return up + path;
}

const Cmd* Desc::producer(const std::string& path) const {
  for (auto& c : cmds)
    for (auto& o : c.outputs)
      if (o == path) return &c;
  return nullptr;
}

const Cmd* Desc::byName(const std::string& name) const {
  for (auto& c : cmds)
    if (c.name == name) return &c;
  return nullptr;
}

std::string yamlQuote(const std::string& s) {
  std::string o = "\"";
  for (unsigned char c : s) {
    switch (c) {
    case '"': o += "\\\""; break;
    case '\\': o += "\\\\"; break;
    case '\n': o += "\\n"; break;
    case '\t': o += "\\t"; break;
    case '\r': o += "\\r"; break;
    default:
      if (c < 32) {
        char b[8];
        snprintf(b, sizeof b, "\\x%02x", c);
        o += b;
      } else {
        o += (char)c;
      }
    }
  }
  return o + "\"";
}

static std::string yamlList(const std::vector<std::string>& v) {
  std::string o = "[";
  for (size_t i = 0; i < v.size(); i++) {
    if (i) o += ", ";
    o += yamlQuote(v[i]);
  }
  return o + "]";
}

std::string Desc::toYaml() const {
  std::string y = "client:\n  name: client\n  version: 0\n";
  if (!fsmode.empty()) y += "  file-system: " + fsmode + "\n";
  y += "\ntargets:\n";
  for (auto& t : targets) y += "  " + yamlQuote(t.first) + ": " + yamlList(t.second) + "\n";
  if (targets.empty()) y += "  \"\": []\n";
  bool anyAttrs = false;
  for (auto& n : nodeAttrs)
    if (!n.second.empty()) anyAttrs = true;
  if (anyAttrs) {
    y += "\nnodes:\n";
    for (auto& n : nodeAttrs) {
      if (n.second.empty()) continue;
      y += "  " + yamlQuote(n.first) + ":\n";
      for (auto& kv : n.second) y += "    " + kv.first + ": " + kv.second + "\n";
    }
  }
  y += cmds.empty() ? "\ncommands: {}\n" : "\ncommands:\n";
  for (auto& c : cmds) {
    y += "  " + yamlQuote(c.name) + ":\n";
    y += "    tool: " + c.tool + "\n";
    if (!c.inputs.empty()) y += "    inputs: " + yamlList(c.inputs) + "\n";
    if (!c.outputs.empty()) y += "    outputs: " + yamlList(c.outputs) + "\n";
    if (c.tool == "shell") {
      y += "    args: " + yamlList(c.argv()) + "\n";
      if (!c.env.empty()) {
        y += "    env:\n";
        for (auto& kv : c.env) y += "      " + yamlQuote(kv.first) + ": " + yamlQuote(kv.second) + "\n";
      }
      if (!c.inheritEnv) y += "    inherit-env: false\n";
      if (!c.safeInterrupt) y += "    can-safely-interrupt: false\n";
      if (!c.deps.empty()) {
        y += "    deps: " + yamlQuote(c.deps) + "\n";
        if (!c.style.empty()) y += "    deps-style: " + c.style + "\n";
      }
      if (!c.signature.empty()) {
        // An explicit signature replaces the computed one, so the client must make it cover everything
        // that matters to the command: the generator's explicit signatures embed a digest of those parts.
        util::Hasher h;
        for (auto& a : c.argv()) h.str(a);
        for (auto& kv : c.env) {
          h.str(kv.first);
          h.str(kv.second);
        }
        h.str(c.deps);
        h.str(c.style);
        y += "    signature: " + yamlQuote(c.signature + "-" + std::to_string(h.get() % 1000000007ULL)) + "\n";
      }
      if (!c.workdir.empty()) y += "    working-directory: " + yamlQuote(c.workdir) + "\n";
      if (c.always) y += "    always-out-of-date: \"true\"\n";
      if (c.allowMissing) y += "    allow-missing-inputs: \"true\"\n";
      if (c.allowModified) y += "    allow-modified-outputs: \"true\"\n";
    } else if (c.tool == "symlink") {
      y += "    contents: " + yamlQuote(c.contents) + "\n";
    } else if (c.tool == "stale-file-removal") {
      y += "    expectedOutputs: " + yamlList(c.expected) + "\n";
      if (!c.roots.empty()) y += "    roots: " + yamlList(c.roots) + "\n";
    }
  }
  return y;
}

ToolResult toolCompute(const Cmd& c, const ReadFn& read) {
  ToolResult r;
  std::vector<std::string> queue;
  std::set<std::string> declared;
  for (auto& i : c.inputs) {
    if (isVirtualNode(i) || isDirNode(i) || isMkdirNode(i)) continue;
    declared.insert(i);
    std::string content;
    if (!read(i, &content)) {
      if (c.allowMissing) continue;
      r.error = "missing input " + i;
      return r;
    }
    r.reads[i] = content;
    queue.push_back(i);
  }
  // Undeclared reads are only legitimate when the command reports them: a command without a dependency
  // file reads its declared inputs and nothing else (premise of C08: "deterministic functions of their
  // declared and discovered inputs").
  bool reports = !c.deps.empty();
  if (!reports) queue.clear();
  for (auto& x : c.extra) {
    if (!reports) break;
    if (r.reads.count(x)) continue;
    std::string content;
    if (read(x, &content)) {
      r.reads[x] = content;
      queue.push_back(x);
    } else if (std::find(r.missing.begin(), r.missing.end(), x) == r.missing.end()) {
      r.missing.push_back(x);
    }
  }
  // follow "#include <path>" lines transitively
  for (size_t qi = 0; qi < queue.size() && qi < 64; qi++) {
    const std::string content = r.reads[queue[qi]];
    size_t pos = 0;
    while (pos < content.size()) {
      size_t eol = content.find('\n', pos);
      if (eol == std::string::npos) eol = content.size();
      if (content.compare(pos, 9, "#include ") == 0) {
        std::string p = content.substr(pos + 9, eol - pos - 9);
        if (!p.empty() && !r.reads.count(p)) {
          std::string inc;
          if (read(p, &inc)) {
            r.reads[p] = inc;
            queue.push_back(p);
          } else if (std::find(r.missing.begin(), r.missing.end(), p) == r.missing.end()) {
            r.missing.push_back(p);
          }
        }
      }
      pos = eol + 1;
    }
  }
  for (auto& e : r.reads)
    if (!declared.count(e.first)) r.discovered.push_back(e.first);
  if (c.strictExtra && !r.missing.empty()) {
    r.error = "cannot find " + r.missing[0];   // a compiler that stops at a missing header
    return r;
  }
  util::Hasher h;
  h.u64(c.salt);
  for (auto& kv : c.env) {
    h.str(kv.first);
    h.str(kv.second);
  }
  for (auto& e : r.reads) {
    h.str(e.first);
    h.str(e.second);
  }
  for (auto& m : r.missing) h.str(m);
  uint64_t v = h.get();
  int idx = 0;
  for (auto& o : c.outputs) {
    if (isVirtualNode(o) || isDirNode(o)) {
      r.outputs.push_back("");
      continue;
    }
    char buf[64];
    snprintf(buf, sizeof buf, "%016llx", (unsigned long long)(v + (uint64_t)idx * 0x9e3779b97f4a7c15ULL));
    r.outputs.push_back("OUT|" + c.name + "|" + std::to_string(idx) + "|" + buf + "\n");
    idx++;
  }
  r.ok = true;
  return r;
}

static std::string escapeMake(const std::string& p) {
  std::string o;
  for (char ch : p) {
    if (ch == ' ' || ch == '#' || ch == '\\') {
      o += '\\';
      o += ch;
    } else if (ch == '$') {
      o += "$$";
    } else {
      o += ch;
    }
  }
  return o;
}

std::string renderMakefileDeps(const std::string& target, const std::vector<std::string>& paths, int variant) {
  // variants exercise what the format allows: one line, continuation lines, CRLF, several rules
  std::string nl = (variant & 4) ? "\r\n" : "\n";
  std::string o = escapeMake(target) + ":";
  if (variant & 8) o = escapeMake(target) + " :";
  size_t n = 0;
  for (auto& p : paths) {
    if ((variant & 1) && n > 0) o += " \\" + nl + " ";
    else o += " ";
    o += escapeMake(p);
    n++;
    if ((variant & 2) && n == paths.size() / 2 && n < paths.size()) {
      // split into a second rule for the same target
      o += nl + escapeMake(target) + ":";
    }
  }
  o += nl;
  return o;
}

std::string renderDependencyInfo(const std::vector<std::string>& inputs, const std::vector<std::string>& missing,
                                 const std::vector<std::string>& outputs) {
  std::string o;
  o += '\0';
  o += "sim-cc-1";
  o += '\0';
  for (auto& p : inputs) {
    o += (char)0x10;
    o += p;
    o += '\0';
  }
  for (auto& p : missing) {
    o += (char)0x11;
    o += p;
    o += '\0';
  }
  for (auto& p : outputs) {
    o += (char)0x40;
    o += p;
    o += '\0';
  }
  return o;
}

} // namespace wb
