#include "worlds/engine_model.h"

using util::Json;

namespace wa {

uint64_t RuleSpec::signature() const {
  util::Hasher h;
  h.u64(leaf);
  h.u64(salt);
  h.u64(nonce);
  for (auto& r : reqs) { h.u64(1); h.u64((uint64_t)r.k); h.u64((uint64_t)r.t); }
  for (auto& d : dyn) { h.u64(2); h.u64((uint64_t)d.on); h.u64(d.mod); h.u64(d.rem); h.u64((uint64_t)d.k); h.u64((uint64_t)d.t); }
  for (auto& d : disc) { h.u64(3); h.u64((uint64_t)d.k); h.u64((uint64_t)(d.on + 1)); h.u64(d.mod); h.u64(d.rem); }
  h.u64(collapse);
  h.u64(pad);
  h.u64(force);
  if (empty) h.u64(77);
  uint64_t v = h.get() >> 2; // stays positive as sqlite int64
  return v ? v : 1;
}

Json RuleSpec::toJson() const {
  Json j = Json::obj();
  j.set("id", id).set("key", util::hex(key)).setb("leaf", leaf).set("salt", (int64_t)salt).set("nonce", (int64_t)nonce);
  Json a = Json::arr();
  for (auto& r : reqs) a.push(Json::obj().set("k", r.k).set("t", r.t));
  j.set("reqs", a);
  Json d = Json::arr();
  for (auto& x : dyn) d.push(Json::obj().set("on", x.on).set("mod", (int64_t)x.mod).set("rem", (int64_t)x.rem).set("k", x.k).set("t", x.t));
  j.set("dyn", d);
  Json c = Json::arr();
  for (auto& x : disc) c.push(Json::obj().set("k", x.k).set("on", x.on).set("mod", (int64_t)x.mod).set("rem", (int64_t)x.rem));
  j.set("disc", c);
  j.set("collapse", (int64_t)collapse).set("pad", (int64_t)pad).setb("force", force).setb("empty", empty).set("mode", mode).set("delay", (int64_t)delayUs);
  return j;
}

RuleSpec RuleSpec::fromJson(const Json& j) {
  RuleSpec r;
  r.id = (int)j.getn("id");
  r.key = util::unhex(j.gets("key"));
  r.leaf = j.getb("leaf");
  r.salt = (uint64_t)j.getn("salt");
  r.nonce = (uint64_t)j.getn("nonce");
  for (auto& e : j.geta("reqs")) r.reqs.push_back({(int)e.getn("k"), (int)e.getn("t")});
  for (auto& e : j.geta("dyn"))
    r.dyn.push_back({(int)e.getn("on"), (unsigned)e.getn("mod"), (unsigned)e.getn("rem"), (int)e.getn("k"), (int)e.getn("t")});
  for (auto& e : j.geta("disc")) r.disc.push_back({(int)e.getn("k"), (int)e.getn("on", -1), (unsigned)e.getn("mod"), (unsigned)e.getn("rem")});
  r.collapse = (unsigned)j.getn("collapse");
  r.pad = (unsigned)j.getn("pad");
  r.force = j.getb("force");
  r.empty = j.getb("empty");
  r.mode = (int)j.getn("mode");
  r.delayUs = (unsigned)j.getn("delay");
  return r;
}

void Program::normalise() {
  index();
  for (auto& e : rules) {
    RuleSpec& r = e.second;
    if (r.leaf) {
      r.reqs.clear();
      r.dyn.clear();
      r.disc.clear();
      continue;
    }
    std::set<int> named;     // every key this rule can request, once
    std::set<int> regular;   // REQ-type inputs (static or dynamic)
    std::vector<Req> reqs;
    for (auto& q : r.reqs) {
      if (!get(q.k)) continue;
      if (!named.insert(q.k).second) continue;
      if (q.t < 0 || q.t > 2) q.t = 0;
      reqs.push_back(q);
      if (q.t == REQ) regular.insert(q.k);
    }
    r.reqs = reqs;
    std::vector<Dyn> dyn;
    // a dynamic request may be conditioned on a static REQ input or on an earlier dynamic REQ input
    for (auto& d : r.dyn) {
      if (!get(d.k) || !regular.count(d.on)) continue;
      if (!named.insert(d.k).second) continue;
      if (d.t < 0 || d.t > 2) d.t = 0;
      if (d.mod == 0) d.mod = 1;
      dyn.push_back(d);
      if (d.t == REQ) regular.insert(d.k);
    }
    r.dyn = dyn;
    std::vector<Disc> disc;
    std::set<int> dseen;
    for (auto& d : r.disc) {
      const RuleSpec* t = get(d.k);
      if (!t) continue;
      if (d.on >= 0 && !regular.count(d.on)) continue;
      if (!dseen.insert(d.k).second) continue;
      if (d.mod == 0) d.mod = 1;
      disc.push_back(d);
    }
    r.disc = disc;
  }
}

std::string computeValue(const RuleSpec& r, const std::map<int, std::string>& regular,
                         const std::map<int, std::string>& reads) {
  if (r.empty) return std::string();
  util::Hasher h;
  h.str(r.key);
  h.u64(r.salt);
  for (auto& e : regular) { h.u64(1); h.u64((uint64_t)e.first); h.str(e.second); }
  for (auto& e : reads) { h.u64(2); h.u64((uint64_t)e.first); h.str(e.second); }
  uint64_t v = h.get();
  if (r.collapse) v %= r.collapse;
  std::string out;
  for (unsigned i = 0; i < r.pad; i++) out += (char)((i * 37 + r.id) & 0xff);
  out.append((const char*)&v, 8);
  return out;
}

EvalResult RefEval::eval(int id) {
  auto m = memo.find(id);
  if (m != memo.end()) return m->second;
  EvalResult res;
  if (visiting.count(id)) {
    res.cyclic = true;
    return res; // not memoised: depends on the path
  }
  const RuleSpec* r = prog->get(id);
  if (!r) {
    res.value = "?";
    return res;
  }
  if (r->leaf) {
    auto it = ext->find(id);
    res.value = it == ext->end() ? std::string("-") : it->second;
    memo[id] = res;
    return res;
  }
  visiting.insert(id);
  std::set<int> requested;
  std::map<int, std::string> regular;
  std::vector<Req> work(r->reqs.begin(), r->reqs.end());
  for (size_t i = 0; i < work.size(); i++) {
    Req q = work[i];
    if (!requested.insert(q.k).second) continue;
    if (skipSingleUse && q.t == SINGLE) continue;
    EvalResult in = eval(q.k);
    if (in.cyclic) {
      visiting.erase(id);
      res.cyclic = true;
      return res;
    }
    if (q.t == REQ) {
      regular[q.k] = in.value;
      for (auto& d : r->dyn)
        if (d.on == q.k && pred(in.value, d.mod, d.rem)) work.push_back({d.k, d.t});
    }
  }
  std::map<int, std::string> reads;
  for (auto& d : r->disc) {
    bool on = d.on < 0;
    if (!on) {
      auto it = regular.find(d.on);
      on = it != regular.end() && pred(it->second, d.mod, d.rem);
    }
    if (!on) continue;
    const RuleSpec* t = prog->get(d.k);
    if (!t || !t->leaf) continue;
    auto it = ext->find(d.k);
    reads[d.k] = it == ext->end() ? std::string("-") : it->second;
  }
  visiting.erase(id);
  res.value = computeValue(*r, regular, reads);
  memo[id] = res;
  return res;
}

void potentialEdges(const Program& p, std::map<int, std::set<int>>* out) {
  for (auto& e : p.rules) {
    auto& s = (*out)[e.first];
    for (auto& q : e.second.reqs) s.insert(q.k);
    for (auto& d : e.second.dyn) s.insert(d.k);
    for (auto& d : e.second.disc) s.insert(d.k);
  }
}

} // namespace wa
