#include "sim/runner.h"

#include <memory>
#include "worlds/engine_world.h"
#include "worlds/queue_world.h"
#include "worlds/bs_world.h"
#include "worlds/fileinfo_world.h"
#include "worlds/ninja_world.h"

namespace runner {
namespace {
// C05 is decided at engine level (world A) and, for a share of the seeds, through the build-system frontend (world B)
class SplitWorld : public World {
  std::unique_ptr<World> a, b;
  unsigned every;
public:
  SplitWorld(World* a, World* b, unsigned every) : a(a), b(b), every(every) {}
  void warmup() override {
    a->warmup();
    b->warmup();
  }
  util::Json generate(uint64_t seed, const GenOptions& opt) override { return seed % every == 0 ? b->generate(seed, opt) : a->generate(seed, opt); }
  RunResult execute(const util::Json& plan) override { return plan.gets("world") == "B" ? b->execute(plan) : a->execute(plan); }
};
} // namespace

World* makeWorld(const std::string& property) {
  if (property == "C04") return new SplitWorld(wa::makeEngineWorld(property), wb::makeBsWorld(property), 4);
  if (property == "C05") return new SplitWorld(wa::makeEngineWorld(property), wb::makeBsWorld(property), 4);
  // C20: the engine binding in world A; the build-database binding (llb_database_*) over the files world B's histories leave
  if (property == "C20") return new SplitWorld(wa::makeEngineWorld(property), wb::makeBsWorld(property), 5);
  if (property == "C01" || property == "C02" || property == "C03" || property == "C04" || property == "C05" ||
      property == "C06" || property == "C07" || property == "C20")
    return wa::makeEngineWorld(property);
  if (property == "C16") return wc::makeQueueWorld();
  if (property == "C13") return wf::makeFileInfoWorld();
  if (property == "C08" || property == "C09" || property == "C10" || property == "C11" || property == "C12" || property == "C14")
    return wb::makeBsWorld(property);
  if (property == "C18") return wd::makeNinjaWorld();
  return nullptr;
}
} // namespace runner
