#include "sim/runner.h"
#include "worlds/engine_world.h"

namespace runner {
World* makeWorld(const std::string& property) {
  if (property == "C01" || property == "C02" || property == "C03" || property == "C04" || property == "C05" ||
      property == "C06" || property == "C07")
    return wa::makeEngineWorld(property);
  return nullptr;
}
} // namespace runner
