#include "sim/runner.h"
#include "worlds/engine_world.h"
#include "worlds/queue_world.h"
#include "worlds/bs_world.h"
#include "worlds/fileinfo_world.h"
#include "worlds/ninja_world.h"

namespace runner {
World* makeWorld(const std::string& property) {
  if (property == "C01" || property == "C02" || property == "C03" || property == "C04" || property == "C05" ||
      property == "C06" || property == "C07" || property == "C20")
    return wa::makeEngineWorld(property);
  if (property == "C16") return wc::makeQueueWorld();
  if (property == "C13") return wf::makeFileInfoWorld();
  if (property == "C08" || property == "C09" || property == "C10" || property == "C11" || property == "C12" || property == "C14")
    return wb::makeBsWorld(property);
  if (property == "C18") return wd::makeNinjaWorld();
  return nullptr;
}
} // namespace runner
