// World A program model: rule programs interpreted identically by the real
// Task implementation and by the reference evaluator (DESIGN 4, "World A generator").
#pragma once
#include "sim/util.h"

#include <map>
#include <set>
#include <string>
#include <vector>

namespace wa {

enum ReqType { REQ = 0, SINGLE = 1, FOLLOW = 2 };

struct Req {
  int k;
  int t;
};
struct Dyn {
  int on;          // id of a REQ input whose value decides
  unsigned mod, rem;
  int k;           // key requested when H(value) % mod == rem
  int t;
};
struct Disc {
  int k;           // leaf read directly and reported as discovered dependency
  int on;          // -1: unconditional; else id of a REQ input whose value decides
  unsigned mod, rem;
};

struct RuleSpec {
  int id = 0;
  std::string key;
  bool leaf = false;
  uint64_t salt = 0;      // part of the computed value
  uint64_t nonce = 0;     // part of the signature only
  std::vector<Req> reqs;
  std::vector<Dyn> dyn;
  std::vector<Disc> disc;
  unsigned collapse = 0;  // 0: none; else value hash is reduced modulo this
  unsigned pad = 0;       // value prefix length
  bool empty = false;     // the computed value is the empty byte string whatever the inputs are
  bool force = false;     // complete(..., forceChange=true)
  int mode = 0;           // 0 sync, 1 queue job, 2 harness thread
  unsigned delayUs = 0;

  uint64_t signature() const;
  util::Json toJson() const;
  static RuleSpec fromJson(const util::Json& j);
};

struct Program {
  std::map<int, RuleSpec> rules;
  std::map<std::string, int> byKey;
  void index() {
    byKey.clear();
    for (auto& r : rules) byKey[r.second.key] = r.first;
  }
  const RuleSpec* get(int id) const {
    auto it = rules.find(id);
    return it == rules.end() ? nullptr : &it->second;
  }
  int idOf(const std::string& key) const {
    auto it = byKey.find(key);
    return it == byKey.end() ? -1 : it->second;
  }
  // drop references to rules that do not exist, duplicates, and conditions on non-REQ inputs
  void normalise();
};

inline bool pred(const std::string& v, unsigned mod, unsigned rem) {
  if (mod <= 1) return true;
  util::Hasher h;
  h.str(v);
  return h.get() % mod == rem % mod;
}

std::string computeValue(const RuleSpec& r, const std::map<int, std::string>& regular,
                         const std::map<int, std::string>& reads);

struct EvalResult {
  bool cyclic = false;
  std::string value;
};

// From-scratch reference evaluator: knows nothing about epochs or history.
struct RefEval {
  const Program* prog = nullptr;
  const std::map<int, std::string>* ext = nullptr;
  std::map<int, EvalResult> memo;
  std::set<int> visiting;
  // When true, single-use requests are not followed.  Single-use inputs never influence a value
  // (generator constraint) and are by documented design invisible to incremental builds, so a cycle
  // that exists only through them need not be found by a build that does not re-run the requester.
  bool skipSingleUse = false;
  void reset(const Program* p, const std::map<int, std::string>* e) {
    prog = p;
    ext = e;
    memo.clear();
    visiting.clear();
  }
  EvalResult eval(int id);
  static std::string missingValue(const std::string& key) { return "?" + key; }
};

// all potential edges of the current program (static, dynamic, discovered)
void potentialEdges(const Program& p, std::map<int, std::set<int>>* out);

} // namespace wa
